"""C13 — term-id argsort always returns a permutation of the input positions (util/sort/_hierarchical.py)."""
import itertools
import warnings

import graphlib as gl
import common
from common import run_driver

RULE = ('single-rooted random DAGs (n <= 12; 25 thorough) x non-empty sequences of their nodes (length 1-9, with and without repeated '
        'ids; exhaustive: all sequences of length <= 4 over 3 ids on fixed DAGs) x {edge-distance sorting, IC sorting with random / '
        'monotone / all-zero IC} x {graph, ontology} as hierarchy x {TermId, Identified, the two mixed} inputs; several calls on ONE sorter instance '
        '(same id set with different repeat counts, same input twice). Checked: result is a permutation of 0..n-1 (statement '
        'itself), (0,) for a single item, input untouched (snapshot), identical answers for TermId/Identified and for a second call; '
        'when the merge trace is observable (Node.make_tagged_node / Node.merge_nodes wrapped from outside) the exact tuple is '
        'compared with the Lean model replaying that trace. Non-trivial: n >= 3 or a repeated id; distinct by (edges, kind, ids).')

THEOREM = 'Hpv.Props.C13.permutation / singleton / deterministic'


def fkey(x):
    """order-preserving injection of the non-NaN doubles into the integers"""
    import struct
    x = float(x)
    if x == 0:
        return 0
    k = int.from_bytes(struct.pack('>d', abs(x)), 'big')
    return k if x > 0 else -k


class Tracer:
    """records which two current positions are merged at each step, by wrapping the static factory methods from outside"""

    def __init__(self):
        from hpotk.util.sort import _hierarchical as H
        self.H = H
        self.ok = hasattr(H, 'Node') and hasattr(H.Node, 'make_tagged_node') and hasattr(H.Node, 'merge_nodes')
        self.trace, self.live = [], []
        self.calls, self.rounds, self.sim_ok, self.eps = [], [], False, None

    def watch(self, sorter):
        """also record what the similarity measure answers, per round, by the POSITIONS of the two clusters (identity); the measure is a
        private attribute: if it is not there the policy is simply not observed"""
        m = getattr(sorter, '_sim_measure', None)
        eps = getattr(sorter, '_epsilon', None)
        if m is None or not callable(getattr(m, 'compute_similarity', None)) or not isinstance(eps, (int, float)) or not self.ok:
            return
        orig, tr = m.compute_similarity, self
        self.eps = float(eps)

        def cs(*a, **k):
            out = orig(*a, **k)
            try:
                hits = [q for x in list(a) + list(k.values()) for q, y in enumerate(tr.live) if y is x]
                v = float(out[0])
                if len(hits) == 2 and hits[0] < hits[1]:
                    if v != v:
                        tr.sim_ok = False
                    tr.calls.append([hits[0], [hits[1], fkey(v)]])
            except Exception:  # noqa
                tr.sim_ok = False
            return out
        try:
            m.compute_similarity = cs
            self.sim_ok = True
        except Exception:  # noqa
            self.sim_ok = False

    def __enter__(self):
        if not self.ok:
            return self
        H = self.H
        self.orig_make, self.orig_merge = H.Node.make_tagged_node, H.Node.merge_nodes
        tr = self

        # the wrappers take whatever the (private) factory methods take: which two live nodes a merge joins is read off its arguments
        # by identity; if that cannot be done the trace is unobservable (counted in the evidence) and the tracer never interferes
        def make(*a, **k):
            n = tr.orig_make(*a, **k)
            tr.live.append(n)
            return n

        def merge(*a, **k):
            try:
                hits = [q for x in list(a) + list(k.values()) for q, y in enumerate(tr.live) if y is x]
                if len(hits) != 2 or hits[0] == hits[1]:
                    raise IndexError
                i, j = hits
                tr.trace.append((i, j))
                tr.rounds.append(tr.calls)
                tr.calls = []
                for q in sorted((i, j), reverse=True):
                    tr.live.pop(q)
            except Exception:  # noqa
                tr.ok = False
            n = tr.orig_merge(*a, **k)
            tr.live.append(n)
            return n
        H.Node.make_tagged_node = staticmethod(make)
        H.Node.merge_nodes = staticmethod(merge)
        return self

    def reset(self):
        self.trace, self.live = [], []
        self.calls, self.rounds = [], []

    def __exit__(self, *a):
        if hasattr(self, 'orig_make'):
            self.H.Node.make_tagged_node = staticmethod(self.orig_make)
            self.H.Node.merge_nodes = staticmethod(self.orig_merge)


def make_sorter(kind, hierarchy, ic):
    from hpotk.util.sort import HierarchicalEdgeTermIdSorting, HierarchicalIcTermIdSorting
    if kind == 'edge':
        return HierarchicalEdgeTermIdSorting(hierarchy)
    g = getattr(hierarchy, 'graph', hierarchy)
    if len(ic) % 3 == 2:
        # the user's function fails for one term during the FIRST sort it is used in, and is fine afterwards
        state = {'armed': True}

        def ic_fails_once(t):
            if state['armed'] and ic.get(t.value, 0.0) == max(ic.values()):
                state['armed'] = False
                raise KeyError(t.value)
            return ic.get(t.value, 0.0)
        srt = HierarchicalIcTermIdSorting(hierarchy, ic_fails_once)
        try:
            srt.argsort([t for t in g][:6])
        except KeyError:
            pass
        state['armed'] = False
        return srt

    def ic_reentrant(t):
        # a user function that itself queries the hierarchy the sorter is working on (half-consuming one traversal, draining another)
        next(iter(g.get_ancestors(t)), None)
        list(g.get_descendants(t))
        g.is_ancestor_of(g.root, t)
        return ic.get(t.value, 0.0)
    return HierarchicalIcTermIdSorting(hierarchy, ic_reentrant if len(ic) % 2 == 0 else (lambda t: ic.get(t.value, 0.0)))


def run_group(ctx, edges, kind, ic, hier_kind, inputs, stream):
    """one sorter instance, several calls"""
    from hpotk.model import TermId, MinimalTerm
    from hpotk.ontology import create_minimal_ontology
    cases = []
    with warnings.catch_warnings():
        warnings.simplefilter('ignore')
        g = gl.build_impl(['indexed', 'indexed', 'incremental'][len(edges) % 3], edges)
        if (len(edges) + len(inputs)) % 2 == 0:
            # the hierarchy has been USED before it is handed to the sorter: predicates (which may stop a traversal at the first hit),
            # a traversal abandoned after one element - sorting must not care
            ns = [t for t in g]
            for a in ns[:6]:
                for b in ns[:6]:
                    g.is_ancestor_of(a, b)
                    g.is_descendant_of(a, b)
                next(iter(g.get_ancestors(a)), None)
                next(iter(g.get_descendants(a)), None)
        hierarchy = g
        if hier_kind == 'ontology':
            terms = [MinimalTerm.create_minimal_term(t, name=t.value, alt_term_ids=(), is_obsolete=False) for t in g]
            hierarchy = create_minimal_ontology(g, terms, 'v')
        with Tracer() as tr:
            try:
                sorter = make_sorter(kind, hierarchy, ic)
            except Exception as e:  # noqa
                ctx.violation('sorter-constructor-raises', {'case': {'kind': 'argsort', 'edges': edges, 'sorter': kind}, 'impl': f'{type(e).__name__}: {e}'})
                return
            tr.watch(sorter)
            policy_cases = []
            for ids in inputs:
                n = len(ids)
                nt = n >= 3 or len(set(ids)) < n
                ctx.case(['argsort', edges, kind, hier_kind, sorted(ic.items()) if ic else None, ids], nt, stream,
                         sample={'edges': edges, 'sorter': kind, 'ids': ids} if nt else None)
                tids = [TermId.from_curie(x) for x in ids]
                snapshot = [t.value for t in tids]
                problem, res = None, None
                try:
                    tr.reset()
                    raw = sorter.argsort(tids)
                    res = tuple(int(i) for i in raw)
                    if common.scribble(raw):          # the caller overwrites the sequence it was given; later answers must not show it
                        ctx.count('result-overwritten-by-caller')
                    trace = list(tr.trace)
                    rounds, sim_ok = [list(r) for r in tr.rounds], tr.sim_ok
                    res2 = tuple(int(i) for i in sorter.argsort(tids))
                    idf = [gl.identified(TermId.from_curie(x)) for x in ids]
                    res3 = tuple(int(i) for i in sorter.argsort(tuple(idf)))
                    # a sequence that mixes the two accepted item kinds (either kind first)
                    mixed_a = [t if k % 2 == 0 else i for k, (t, i) in enumerate(zip(tids, idf))]
                    mixed_b = [i if k % 2 == 0 else t for k, (t, i) in enumerate(zip(tids, idf))]
                    keep_a, keep_idf = list(mixed_a), list(idf)
                    res4 = tuple(int(i) for i in sorter.argsort(mixed_a))
                    res5 = tuple(int(i) for i in sorter.argsort(tuple(mixed_b)))
                    idf_list = list(idf)
                    res6 = tuple(int(i) for i in sorter.argsort(idf_list))          # Identified items in a LIST (mutable input)
                    if sorted(res) != list(range(n)):
                        problem = f'not a permutation of 0..{n - 1}: {res}'
                    elif n == 1 and res != (0,):
                        problem = f'single item gives {res}'
                    elif [t.value for t in tids] != snapshot or len(tids) != n:
                        problem = 'the input sequence was modified'
                    elif res2 != res:
                        problem = f'second call gives {res2}, first gave {res}'
                    elif res3 != res:
                        problem = f'Identified input gives {res3}, TermId input gives {res}'
                    elif res4 != res or res5 != res:
                        problem = f'mixed TermId/Identified input gives {res4} / {res5}, TermId input gives {res}'
                    elif res6 != res:
                        problem = f'a list of Identified items gives {res6}, TermId input gives {res}'
                    elif len(mixed_a) != n or any(x is not y for x, y in zip(mixed_a, keep_a)) or \
                            len(idf_list) != n or any(x is not y for x, y in zip(idf_list, keep_idf)):
                        problem = 'the input sequence was modified: a list of (partly) Identified items no longer holds the caller\'s objects'
                except Exception as e:  # noqa
                    problem = f'raises {type(e).__name__}: {e}'
                    trace = []
                if problem:
                    ctx.violation(f'{kind}:{problem.split(":")[0][:40]}',
                                  {'case': {'kind': 'argsort', 'edges': [list(e) for e in edges], 'sorter': kind, 'ic': ic, 'hierarchy': hier_kind,
                                            'calls_on_this_sorter': [list(x) for x in inputs[:inputs.index(ids) + 1]]},
                                   'impl': problem, 'theorem': THEOREM})
                    return
                if tr.ok and len(trace) == n - 1:
                    cases.append((ids, trace, res))
                    if sim_ok and tr.sim_ok and len(rounds) == n - 1 and all(len(r) == (n - k) * (n - k - 1) // 2 for k, r in enumerate(rounds)):
                        policy_cases.append((ids, trace, res, rounds))
                    else:
                        ctx.count('policy.unobservable')
                else:
                    ctx.count('trace.unobservable')
    if policy_cases:
        # the clustering POLICY (Hpv.Sorting.clusterLoop, theorem policy_permutation) fed with the similarities the measure was seen to
        # answer: information - an implementation that clusters differently is still covered by the theorems over every merge trace
        reps = run_driver([{'op': 'argsort.policy', 'ids': ids, 'eps': fkey(tr.eps), 'rounds': rounds} for ids, _, _, rounds in policy_cases])
        for (ids, trace, res, rounds), rep in zip(policy_cases, reps):
            same = isinstance(rep, dict) and rep.get('result') is not None and tuple(rep['result']) == res
            pops = [(i, j if j < i else j + 1) for i, j in (rep.get('pops') or [])] if isinstance(rep, dict) else None
            ctx.count('policy.' + ('agrees' if same and pops == [tuple(p) for p in trace] else 'result-agrees-pops-differ' if same else 'differs'))
    if cases:
        reps = run_driver([{'op': 'argsort.replay', 'ids': ids, 'trace': [list(p) for p in trace]} for ids, trace, _ in cases])
        for (ids, trace, res), rep in zip(cases, reps):
            ctx.count('trace.replayed')
            schemes = [k for k in ('by_id', 'by_position') if isinstance(rep, dict) and rep.get(k) is not None and tuple(rep[k]) == res]
            ctx.count('trace.replayed.agrees-with.' + ('+'.join(schemes) if schemes else 'NEITHER'))
            if not schemes:
                # the model replaying the observed merges gives another answer: the tie is broken. What the code returned was checked
                # above and IS a permutation here, so this input does not fail the property: no failing input
                ctx.violation(f'{kind}:trace-replay', {'case': {'kind': 'argsort', 'edges': [list(e) for e in edges], 'sorter': kind, 'ic': ic,
                                                                 'hierarchy': hier_kind, 'calls_on_this_sorter': [list(ids)]},
                                                       'trace': trace, 'impl': list(res), 'model': rep,
                                                       'theorem': 'correspondence of Hpv.Sorting.argsort / argsortPos with HierarchicalSorting.argsort (Hpv.Props.C13.permutation / permutation_positions are proved about the two modelled schemes)'},
                              no_input=True)


def single_rooted(rng, n):
    labels = gl.random_labels(rng, n)
    edges = set()
    for i in range(1, n):
        for p in rng.sample(range(i), min(i, rng.choice([1, 1, 2, 3]))):
            edges.add((labels[i], labels[p]))
    return sorted(edges)


def random_ic(rng, edges):
    nodes = gl.nodes_of(edges)
    style = rng.choice(['random', 'zero', 'depth', 'crowded', 'extreme'])
    if style == 'zero':
        return {n: 0.0 for n in nodes}
    if style == 'crowded':
        # all different as doubles, all the same in single precision (and some exactly equal): -log of neighbouring large counts
        base = rng.choice([3.0, 17.25, 0.125, 24.0])
        return {n: base + rng.randrange(0, 6) * base * 2.0 ** -40 for n in nodes}
    if style == 'extreme':
        return {n: rng.choice([0.0, 5e-324, 1e-300, 4.9e-10, 5e-10, 5.1e-10, 1e300, 1.7976931348623157e308, 2.0 ** 53, 2.0 ** 53 + 2, float('inf'), float('inf')]) for n in nodes}      # -log(0) of a never-annotated term is inf
    if style == 'random':
        return {n: rng.choice([0.0, 0.5, 1.0, 2.0, 3.5]) for n in nodes}
    subs = {}
    for s, o in edges:
        subs.setdefault(s, []).append(o)
    depth = {}

    def d(v):
        if v not in depth:
            depth[v] = 0 if v not in subs else 1 + max(d(p) for p in subs[v])
        return depth[v]
    return {n: float(d(n)) for n in nodes}


def related_inputs(rng, nodes, count):
    """inputs that share id sets with different repeat counts, repeats adjacent and separated"""
    out = []
    for _ in range(count):
        k = rng.randrange(1, min(len(nodes), 6) + 1)
        base = rng.sample(nodes, k)
        out.append(list(base))
        ext = list(base) + [rng.choice(base) for _ in range(rng.randrange(1, 4))]
        rng.shuffle(ext)
        out.append(ext)
        out.append(list(base))
        if len(base) > 1:
            out.append(base[:-1])
    return out


def run(ctx):
    rng = ctx.rng
    thorough = ctx.tier == 'thorough'
    fixed = [
        [('HP:2', 'HP:1'), ('HP:3', 'HP:1'), ('HP:4', 'HP:2'), ('HP:4', 'HP:3')],
        [('HP:2', 'HP:1'), ('HP:3', 'HP:2'), ('HP:4', 'HP:3')],
        [('HP:01', 'HP:0'), ('HP:010', 'HP:0'), ('HP:02', 'HP:01'), ('HP:03', 'HP:010')],
        [('HP:2', 'HP:1'), ('HP:3', 'HP:1'), ('HP:4', 'HP:1'), ('HP:5', 'HP:2')],
    ]
    for edges in fixed:
        nodes = gl.nodes_of(edges)
        for trio in ([nodes[:3], nodes[-3:]] if not thorough else list(itertools.combinations(nodes, 3))):
            inputs = [list(seq) for n in range(1, 5) for seq in itertools.product(trio, repeat=n)]
            for kind in ('edge', 'ic'):
                ic = random_ic(rng, edges) if kind == 'ic' else None
                run_group(ctx, edges, kind, ic, rng.choice(['graph', 'ontology']), inputs, 'exhaustive.len<=4.over-3-ids')
    ctx.exhaustive['all sequences of length <= 4 over 3 ids on 4 fixed DAGs x {edge, IC} sorters (one sorter instance per group)'] = True
    deep_hierarchy(ctx, rng, 1300 if not thorough else 3500)
    for k in range(300 if thorough else 60):
        if k % 4 == 3:      # several parentless terms: the factory adds owl:Thing, items may come from different sub-hierarchies
            edges = gl.random_dag(rng, n=rng.randrange(4, 14), shape='forest')[0]
        else:
            edges = single_rooted(rng, rng.randrange(2, 26 if thorough else 13))
        nodes = gl.nodes_of(edges)
        for kind in ('edge', 'ic'):
            ic = random_ic(rng, edges) if kind == 'ic' else None
            inputs = related_inputs(rng, nodes, 3)
            for _ in range(3):
                inputs.append([rng.choice(nodes) for _ in range(rng.randrange(1, 10))])
            run_group(ctx, edges, kind, ic, rng.choice(['graph', 'ontology']), inputs, 'random')


def deep_hierarchy(ctx, rng, depth):
    """a chain deeper than the interpreter's recursion limit, with a few twigs: both sorters must still return a permutation"""
    from hpotk.model import TermId
    ids = [f'HP:{i:07d}' for i in range(1, depth + 1)]
    edges = [(ids[i], ids[i - 1]) for i in range(1, depth)] + [(f'HP:9{i:06d}', ids[rng.randrange(depth)]) for i in range(6)]
    with warnings.catch_warnings():
        warnings.simplefilter('ignore')
        for f in ('indexed', 'incremental'):
            g = gl.build_impl(f, edges)
            for kind in ('edge', 'ic'):
                sorter = make_sorter(kind, g, {ids[-1]: 3.0, ids[depth // 2]: 2.0, ids[1]: 1.0})
                items = [ids[-1], ids[depth // 2], 'HP:9000001', ids[-2], ids[3], 'HP:9000004']
                ctx.case(['deep', depth, f, kind], True, 'deep-hierarchy', sample={'depth': depth, 'factory': f, 'sorter': kind})
                try:
                    res = tuple(int(i) for i in sorter.argsort([TermId.from_curie(x) for x in items]))
                    problem = None if sorted(res) == list(range(len(items))) else f'not a permutation: {res}'
                except RecursionError as e:
                    problem = f'raises RecursionError on a hierarchy of depth {depth}'
                except Exception as e:  # noqa
                    problem = f'raises {type(e).__name__}: {str(e)[:200]}'
                if problem:
                    ctx.violation(f'{kind}:deep-hierarchy', {'case': {'kind': 'deep', 'depth': depth, 'factory': f, 'sorter': kind, 'items': items},
                                                             'impl': problem, 'theorem': THEOREM})
                    return


def replay(ctx, data):
    c = data['case']
    if c.get('kind') == 'deep':
        deep_hierarchy(ctx, ctx.rng, c['depth'])
        return
    run_group(ctx, [tuple(e) for e in c['edges']], c['sorter'], c.get('ic'), c.get('hierarchy', 'graph'),
              [list(x) for x in c['calls_on_this_sorter']], 'replay')
