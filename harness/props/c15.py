"""C15 — SimilarityContainer is a symmetric map; the CSV round trip is lossless (algorithm/similarity/_model.py, model/_base.py)."""
import gzip
import io
import itertools
import json
import os
import struct
import tempfile

from common import run_driver

RULE = ('(1) operation histories over set_similarity/get_similarity/len/items: exhaustive over two keys (both orders, both self pairs) x '
        'values {0, 0.5, -1} up to length 3 (4 thorough; quick samples length 4), random histories up to length 30 over 4 keys and '
        'values {0, 5e-324, 0.1, 1/3, 1.797e308, -1, -5e-324, -0.0}; every output (set outcome, read value, len, sorted items) compared '
        'with the Lean model. (2) metadata dictionaries over an alphabet with space, #, non-ASCII, empty strings, ";", "=", LF, CR and '
        'other control/separator characters: to_csv must reject exactly the dictionaries the model rejects (table of forbidden '
        'characters extracted from the running code and passed to the model; TableOk evaluated by the model), otherwise from_csv(to_csv) '
        'must return the same similarities (float.hex) and metadata for .csv and .csv.gz; a caller-supplied `created` entry may sit anywhere '
        'in the dict, values may begin / end with blanks, and the re-read container is extended and round-tripped a second time; term ids that '
        'stress the text format (a leading #, commas, quotes, LF / CR / CRLF inside an id, blanks, BOM, the header words, empty); for every '
        'written file its physical lines are also given to the framing model (sim.unframe) whose output, parsed with the csv module, must equal '
        'what from_csv returns. Non-trivial: the history overwrites a pair, '
        'uses both key orders, a self pair or a rejected value / the metadata has >= 2 entries or a special character.')

THEOREM = 'Hpv.Props.C15.*'


def fkey(x):
    """order-preserving injection float -> int (the container only compares with 0 and stores)"""
    x = float(x)
    if x == 0:
        return 0
    k = int.from_bytes(struct.pack('>d', abs(x)), 'big')
    return k if (x > 0 or x != x) else -k          # NaN is not negative (`nan < 0` is False)


def _cls():
    from hpotk.algorithm.similarity import SimilarityContainer
    return SimilarityContainer


def typed(op):
    """the value of a set op in the numeric type named by its optional 5th element (default: float)"""
    import numpy as np
    kind = op[4] if len(op) > 4 else 'float'
    return {'float': float, 'int': int, 'np.int64': np.int64, 'np.float32': np.float32, 'np.float64': np.float64, 'bool': bool}[kind](op[3])


def run_impl(ops):
    c = _cls()()
    out = []
    for op in ops:
        try:
            if op[0] == 'set':
                c.set_similarity(op[1], op[2], typed(op))
                out.append('ok')
            elif op[0] == 'get':
                out.append(fkey(c.get_similarity(op[1], op[2])))
            elif op[0] == 'len':
                out.append(len(c))
            elif op[0] == 'items':
                # which of the two keys of a listed pair comes first is not specified ("every stored unordered pair exactly once"): the smaller one first here
                out.append(sorted([*sorted((a, b)), fkey(v)] for a, b, v in c.items()))
        except ValueError:
            out.append('ValueError')
        except Exception as e:  # noqa
            out.append('raises ' + type(e).__name__)
    return out, c


def nontrivial_hist(ops):
    pairs, both, selfp, rej = set(), False, False, False
    over = False
    for op in ops:
        if op[0] != 'set':
            continue
        k = tuple(sorted((op[1], op[2])))
        if k in pairs:
            over = True
        pairs.add(k)
        if op[1] > op[2]:
            both = True
        if op[1] == op[2]:
            selfp = True
        if op[3] < 0:
            rej = True
    return over or both or selfp or rej


def evaluate_hist(ctx, hists, stream):
    reqs = [{'op': 'sim.hist', 'ops': [[o[0], *o[1:3], fkey(typed(o))] if o[0] == 'set' else list(o) for o in ops]} for ops in hists]
    reps = run_driver(reqs)
    for ops, rep in zip(hists, reps):
        impl, _ = run_impl(ops)
        model = [sorted(x) if isinstance(x, list) else x for x in rep]
        nt = nontrivial_hist(ops)
        ctx.case(['hist', ops], nt, stream, sample={'ops': ops, 'outputs': impl} if nt and len(ops) > 3 else None)
        if impl != model:
            i = next(k for k, (a, b) in enumerate(zip(impl, model)) if a != b)
            ctx.violation(f'hist:{ops[i][0]}', {'case': {'kind': 'hist', 'ops': [list(o) for o in ops]}, 'first_difference_at': i,
                                                'impl': impl, 'model': model, 'theorem': 'Hpv.Props.C15.last_write / items_len / rejected_no_effect'})


FINAL = [('get', 'A', 'B'), ('get', 'B', 'A'), ('get', 'A', 'A'), ('get', 'B', 'B'), ('len',), ('items',)]


def forbidden_table():
    """characters that metadata_to_str rejects, found by probing the running code (code points 0..0x2FF + a few separators)"""
    c = _cls()
    probe = list(range(0, 0x300)) + [0x2028, 0x2029, 0xFEFF, 0x1F600]
    forb = []
    for cp in probe:
        obj = c(metadata={'k': 'a' + chr(cp) + 'b'})
        try:
            obj.metadata_to_str()
        except ValueError:
            forb.append(cp)
        except Exception:  # noqa
            forb.append(cp)
    return forb


def csv_round_trip(c, suffix, want_container=False):
    """write with to_csv(path), read with from_csv(path); returns (items, meta) of the re-read container"""
    d = tempfile.mkdtemp(prefix='verif-c15-')
    path = os.path.join(d, 'sim' + suffix)
    try:
        c.to_csv(path)
        first = _cls().from_csv(path)
        # the caller goes on using what it read (it owns it): more pairs, other values, metadata where that is a plain dict; the FILE has not
        # changed, so reading the same path again gives what the file holds - that second reading is what this function reports
        try:
            for a, b, _ in list(first.items())[:3]:
                first.set_similarity(a, b, 77.5)
            first.set_similarity('ZZ:changed-by', 'ZZ:the-caller', 3.25)
            if isinstance(first.metadata, dict):
                first.metadata['changed-by'] = 'the caller'
        except Exception:  # noqa
            pass
        r = _cls().from_csv(path)
        if want_container:
            return r
        return sorted((a, b, float(v).hex()) for a, b, v in r.items()), dict(r.metadata)
    finally:
        for f in os.listdir(d):
            os.remove(os.path.join(d, f))
        os.rmdir(d)


def _surrogate_free(x):
    try:
        json.dumps(x).encode('utf-8')
        str(x).encode('utf-8')
        return True
    except UnicodeEncodeError:
        return False


def csv_tie(ctx, c, reread, impl, lines, case):
    """the csv dialect model (Hpv/Csv.lean; theorems csv_round_trip / file_round_trip) against the written file, both ways:
    READ - the physical lines of the file go through the model's header filter, csv state machine and DictReader layer
           (sim.read_file); with float() on the third column that must be the container from_csv returns;
    WRITE - the model writes title, metadata line and the rows of items() (third column: repr of the value, which is what
           the csv module writes for a float) with minimal and with full quoting (sim.write_file); the file must be one of the
           two line for line. A file that is neither is a broken tie (the theorem speaks of the model's writer): the
           re-read container is then compared with the written one as the search for a failing input."""
    if not all(_surrogate_free(l) for l in lines):
        ctx.count('csv.skipped-surrogates')
        return
    rep = run_driver([{'op': 'sim.read_file', 'lines': lines}])[0]
    if 'error' in rep:
        ctx.count('csv.read.model-rejects-input')
        return
    if 'err' in rep['csv'] or 'err' in rep['meta']:
        model = 'raises'
    else:
        try:
            want = _cls()()
            for row in rep['csv']['rows']:
                d = {k: v for k, v in row}
                want.set_similarity(d['term_a'], d['term_b'], float(d['ic_mica']))
            model = {'items': sorted((a, b, float(v).hex()) for a, b, v in want.items()), 'meta': {k: v for k, v in rep['meta']['ok']}}
        except Exception as e:  # noqa  (a row without the three columns, a value float() rejects)
            model = 'raises'
    got = 'raises' if isinstance(impl, str) else impl
    ctx.count('csv.read.' + ('agree' if got == model else 'differ'))
    if got != model:
        ctx.violation('csv-read', {'case': case, 'file_lines': lines[:12], 'impl': impl if isinstance(impl, str) else {k: (v[:5] if k == 'items' else v) for k, v in impl.items()},
                                   'model': model if isinstance(model, str) else {k: (v[:5] if k == 'items' else v) for k, v in model.items()},
                                   'theorem': 'Hpv.Props.C15.file_round_trip'})
    # WRITE
    if len(lines) < 2 or not lines[0].startswith('#') or not lines[1].startswith('#'):
        ctx.count('csv.write.no-comment-lines')
        return
    # the rows in the order and the spelling the FILE has them (as the model read them a moment ago): which order a writer lists the items in and
    # how it spells a value are not the csv layer's business - that the re-read container equals the written one was compared above
    if 'err' in rep['csv'] or len(rep['csv']['rows']) != len(list(c.items())) or any(len(r) != len(rep['csv']['fieldnames']) for r in rep['csv']['rows']):
        ctx.count('csv.write.not-compared(the file does not read as one row per item)')
        return
    rows = [rep['csv']['fieldnames']] + [[v for _, v in row] for row in rep['csv']['rows']]
    base = {'op': 'sim.write_file', 'title': lines[0][1:].rstrip('\r\n'), 'meta_line': lines[1][1:].rstrip('\r\n'), 'rows': rows}
    outs = run_driver([dict(base, quote_all=False), dict(base, quote_all=True)])
    norm = lambda ls: [l if i > 1 else l.rstrip('\r\n') for i, l in enumerate(ls)]
    which = [name for name, o in zip(('minimal', 'all'), outs) if 'lines' in o and norm(o['lines']) == norm(lines)]
    ctx.count('csv.write.' + ('agree-' + which[0] if which else 'differ'))
    if not which:
        # the tie to the model's writer is broken; failing input = this container if it does not survive the trip
        same = (not isinstance(impl, str)) and impl['items'] == sorted((a, b, float(v).hex()) for a, b, v in c.items())
        ctx.violation('csv-writer-differs', {'case': case, 'file_lines': lines[:12], 'model_lines': outs[0].get('lines', outs[0])[:12],
                                             'round_trip_of_this_input_intact': same,
                                             'theorem': 'Hpv.Props.C15.file_round_trip (speaks of Hpv.Csv.writeRows)'}, no_input=same)


def evaluate_csv_dialect(ctx, thorough):
    """the csv dialect model against the standard csv module the library reads and writes through: every text up to length 5
    (6) over {a , " CR LF} and random longer ones over a wider alphabet go through csv.reader over a newline='' handle and through
    the model's reader; random rows go through csv.writer (minimal and full quoting) and the model's writer."""
    import csv
    rng = ctx.rng
    texts = [''.join(t) for n in range(0, (7 if thorough else 6)) for t in itertools.product(['a', ',', '"', '\r', '\n'], repeat=n)]
    alph = ['a', 'b', ',', '"', '\r', '\n', ' ', '#', '\xe9', 'x', '\t', "'", '\x0b', '\x1c', '\x85', '\u2028', '\U0001F600', ';']
    for _ in range(60000 if thorough else 12000):
        texts.append(''.join(rng.choice(alph[:10]) if rng.random() < 0.9 else rng.choice(alph) for _ in range(rng.randrange(0, 16))))
    reqs, exp = [], []
    for t in texts:
        reqs.append({'op': 'csv.read', 'text': t})
        try:
            exp.append({'records': list(csv.reader(io.StringIO(t, newline='')))})
        except csv.Error:
            exp.append({'err': 'csv.Error'})
    for _ in range(20000 if thorough else 5000):
        rows = [[''.join(rng.choice(alph) for _ in range(rng.randrange(0, 5))) for _ in range(rng.randrange(1, 5))] for _ in range(rng.randrange(0, 5))]
        for qa in (False, True):
            reqs.append({'op': 'csv.write', 'rows': rows, 'quote_all': qa})
            h = io.StringIO(newline='')
            csv.writer(h, quoting=csv.QUOTE_ALL if qa else csv.QUOTE_MINIMAL).writerows(rows)
            exp.append({'text': h.getvalue()})
    reps = run_driver(reqs)
    for rq, e, o in zip(reqs, exp, reps):
        kind = 'csv-dialect.' + rq['op']
        nt = (rq['op'] == 'csv.read' and any(ch in rq['text'] for ch in '"\r\n,')) or (rq['op'] == 'csv.write' and any(any(ch in f for ch in ',"\r\n') for r in rq['rows'] for f in r))
        ctx.case([kind, rq.get('text', rq.get('rows')), rq.get('quote_all')], nt, 'csv-dialect')
        if o != e:
            ctx.count(kind + '.differ')
            # the model of the standard library's csv module is off: a broken tie, not a failing input of the property
            ctx.violation(kind, {'case': {'kind': 'csv-dialect', 'request': rq}, 'python_csv': e, 'model': o,
                                 'theorem': 'Hpv.Props.C15.csv_round_trip (model of the csv module)'}, no_input=True)
        else:
            ctx.count(kind + '.agree')


def many_items(ctx, rng, thorough):
    """a container that has seen more distinct keys than 2^16 (thorough: 2^17): every stored pair reads back in both orders, pairs never set
    read 0, len and the listing count each pair once - the statement of the property evaluated on the implementation against a plain dict"""
    n = 140000 if thorough else 67000
    c = _cls()()
    want = {}
    keys = [f'K:{i:06d}' for i in range(n)]
    for i in range(n - 1):
        a, b = (keys[i], keys[i + 1]) if i % 3 else (keys[i + 1], keys[i])
        v = float(i % 97 + 1)
        c.set_similarity(a, b, v)
        want[tuple(sorted((a, b)))] = v
    for i in (0, 1, 65534, 65535, 65536, 65537, n - 2):         # overwrites around the boundary
        c.set_similarity(keys[i + 1], keys[i], 0.5)
        want[tuple(sorted((keys[i], keys[i + 1])))] = 0.5
    ctx.case(['many-items', n], True, 'more than 2^16 distinct keys', sample={'distinct_keys': n})
    problem = None
    probe = list(range(0, 300)) + list(range(65200, 65900)) + [rng.randrange(n - 1) for _ in range(3000)] + [n - 2]
    for i in probe:
        k = tuple(sorted((keys[i], keys[i + 1])))
        g1, g2 = c.get_similarity(keys[i], keys[i + 1]), c.get_similarity(keys[i + 1], keys[i])
        if g1 != want[k] or g2 != want[k]:
            problem = f'get_similarity({keys[i]}, {keys[i + 1]}) = {g1} / reversed {g2}, last set {want[k]}'
            break
        j = (i + 2 + rng.randrange(n - 3)) % n
        if abs(j - i) > 1 and j != i and c.get_similarity(keys[i], keys[j]) != 0:
            problem = f'get_similarity({keys[i]}, {keys[j]}) = {c.get_similarity(keys[i], keys[j])} for a pair that was never set'
            break
    if problem is None and len(c) != len(want):
        problem = f'len = {len(c)} with {len(want)} stored pairs'
    if problem is None:
        listed = {}
        for a, b, v in c.items():
            listed[tuple(sorted((a, b)))] = listed.get(tuple(sorted((a, b))), 0) + 1
        if len(listed) != len(want) or any(x != 1 for x in listed.values()):
            problem = f'items() lists {len(listed)} distinct pairs ({sum(listed.values())} rows), {len(want)} are stored'
        elif set(listed) != set(want):
            odd = sorted(set(listed) - set(want))[:3]
            problem = f'items() lists pairs that were never set, e.g. {odd}, and misses {sorted(set(want) - set(listed))[:3]}'
    if problem is None:
        # pairs that were never set, at distances where packed / truncated keys would collide
        for x in [65536, 65537, 65538, 66000, n - 1] + [rng.randrange(65536, n) for _ in range(300)]:
            for d in (65536, 65535, 65537, 32768, 256):
                for y in (x - d, x - d + 1, x - d - 1):
                    if 0 <= y < n and abs(x - y) > 1 and c.get_similarity(keys[x], keys[y]) != 0:
                        problem = f'get_similarity({keys[x]}, {keys[y]}) = {c.get_similarity(keys[x], keys[y])} for a pair that was never set'
                        break
                if problem:
                    break
            if problem:
                break
    if problem:
        ctx.violation('many-items', {'case': {'kind': 'many-items', 'n': n}, 'impl': problem, 'theorem': 'Hpv.Props.C15.last_write / items_len'})


def frame_tie(ctx, c, suffix, case):
    """the framing model (Hpv.Sim.unframe / parseMeta) against from_csv on the file to_csv wrote: the physical lines of the file,
    read the way the library reads them (newlines untranslated), go to the model; what the model hands to the csv reader is
    parsed with the standard csv module and must give the container from_csv returns; so must the metadata the model decodes"""
    import csv
    d = tempfile.mkdtemp(prefix='verif-c15-')
    path = os.path.join(d, 'sim' + suffix)
    try:
        c.to_csv(path)
        opener = gzip.open if suffix.endswith('.gz') else open
        with opener(path, 'rt', encoding='utf-8', newline='') as h:
            lines = list(h)
        rep = run_driver([{'op': 'sim.unframe', 'lines': lines}])[0]
        try:
            r = _cls().from_csv(path)
            impl = {'items': sorted((a, b, float(v).hex()) for a, b, v in r.items()), 'meta': dict(r.metadata)}
        except Exception as e:  # noqa
            impl = f'raises {type(e).__name__}: {e}'
        if 'error' in rep:
            model = rep
        else:
            want = _cls()()
            for rec in csv.DictReader(rep['body']):
                want.set_similarity(rec['term_a'], rec['term_b'], float(rec['ic_mica']))
            model = {'items': sorted((a, b, float(v).hex()) for a, b, v in want.items()),
                     'meta': dict(rep['meta']['ok']) if 'ok' in rep['meta'] else 'ValueError'}
        ctx.count('frame.' + ('agree' if impl == model else 'differ'))
        if impl != model:
            ctx.violation('frame', {'case': case, 'file_lines': lines[:12], 'impl': impl if isinstance(impl, str) else {k: (v[:5] if k == 'items' else v) for k, v in impl.items()},
                                    'model': model if 'error' in model else {k: (v[:5] if k == 'items' else v) for k, v in model.items()},
                                    'theorem': 'Hpv.Props.C15.file_frame_round_trip'})
        csv_tie(ctx, c, r if not isinstance(impl, str) else None, impl, lines, case)
    finally:
        for f in os.listdir(d):
            os.remove(os.path.join(d, f))
        os.rmdir(d)


def evaluate_meta(ctx, cases, forb, stream):
    """cases: list of (meta list of (k, v), ops)"""
    reqs = [{'op': 'meta.codec', 'forb': forb, 'meta': [list(kv) for kv in meta]} for meta, _ in cases]
    reps = run_driver(reqs)
    for (meta, ops), rep in zip(cases, reps):
        _, c = run_impl(ops)
        c = _cls()(metadata=dict(meta))
        for op in ops:
            if op[0] == 'set' and op[3] >= 0:
                c.set_similarity(op[1], op[2], op[3])
        want_items = sorted((a, b, float(v).hex()) for a, b, v in c.items())
        special = any(ch in k + v for k, v in meta for ch in ';=\n\r# \x85 ') or len(meta) >= 2
        ctx.case(['meta', meta, ops], special, stream, sample={'meta': meta, 'n_items': len(want_items)} if special else None)
        model_rejects = 'err' in rep['enc']
        for suffix in ('.csv', '.csv.gz'):
            try:
                got_items, got_meta = csv_round_trip(c, suffix)
                impl = 'ok'
            except ValueError as e:
                impl = 'ValueError'
                detail = str(e)
            except Exception as e:  # noqa
                impl = 'raises ' + type(e).__name__
                detail = str(e)
            ctx.count(f'roundtrip.{impl}')
            if model_rejects:
                if impl != 'ValueError':
                    ctx.violation('meta-not-rejected', {'case': {'kind': 'meta', 'meta': [list(x) for x in meta], 'ops': [list(o) for o in ops], 'suffix': suffix},
                                                        'impl': impl, 'model': 'ValueError (reserved character)', 'theorem': 'Hpv.Props.C15.meta_rejected'})
                continue
            if impl != 'ok':
                ctx.violation(f'round-trip-fails:{impl}', {'case': {'kind': 'meta', 'meta': [list(x) for x in meta], 'ops': [list(o) for o in ops], 'suffix': suffix},
                                                           'impl': f'{impl}: {detail}', 'model': rep, 'theorem': 'Hpv.Props.C15.meta_round_trip / rows_round_trip'})
                continue
            want_meta = dict(c.metadata)      # includes the `created` stamp written by to_csv
            if got_items != want_items or got_meta != want_meta:
                ctx.violation('round-trip-differs', {'case': {'kind': 'meta', 'meta': [list(x) for x in meta], 'ops': [list(o) for o in ops], 'suffix': suffix},
                                                     'impl': {'items': got_items[:5], 'meta': got_meta}, 'expected': {'items': want_items[:5], 'meta': want_meta},
                                                     'theorem': 'Hpv.Props.C15.meta_round_trip / rows_round_trip'})
                continue
            frame_tie(ctx, c, suffix, {'kind': 'meta', 'meta': [list(x) for x in meta], 'ops': [list(o) for o in ops], 'suffix': suffix})
            # second generation: the re-read container (whose metadata already holds `created`, so new entries come after it)
            # gets the case's entries again under fresh keys and one more pair, is written and read once more
            try:
                r = csv_round_trip(c, suffix, want_container=True)
                for k, v in meta:
                    if k != 'created':
                        r.metadata['g2' + k] = v
                if ops:
                    r.set_similarity('G2:1', 'G2:2', 0.25)
                want2 = sorted((a, b, float(v).hex()) for a, b, v in r.items())
                got2_items, got2_meta = csv_round_trip(r, suffix)
                if got2_items != want2 or got2_meta != dict(r.metadata):
                    ctx.violation('round-trip-differs:second-generation', {
                        'case': {'kind': 'meta', 'meta': [list(x) for x in meta], 'ops': [list(o) for o in ops], 'suffix': suffix},
                        'impl': {'items': got2_items[:5], 'meta': got2_meta}, 'expected': {'items': want2[:5], 'meta': dict(r.metadata)},
                        'theorem': 'Hpv.Props.C15.meta_round_trip / rows_round_trip'})
            except Exception as e:  # noqa
                ctx.violation('round-trip-fails:second-generation', {
                    'case': {'kind': 'meta', 'meta': [list(x) for x in meta], 'ops': [list(o) for o in ops], 'suffix': suffix},
                    'impl': f'{type(e).__name__}: {e}', 'theorem': 'Hpv.Props.C15.meta_round_trip / rows_round_trip'})


def probe_outcomes():
    """a fixed set of file round trips with keys and metadata outside ASCII, as a digest (environment probe)"""
    out = {}
    for name, keys, meta in (('ascii', ['A:1', 'B:1'], {'k': 'v'}), ('latin', ['Stra\u00dfe:1', 'caf\u00e9:2'], {'qui': '\u00e9t\u00e9'}),
                             ('wide', ['\u8868:1', '\U0001F600:2'], {'\u75c5': '\u540d \U0001F9EC'})):
        for suffix in ('.csv', '.csv.gz'):
            c = _cls()(metadata=dict(meta))
            c.set_similarity(keys[0], keys[1], 1.5)
            c.set_similarity(keys[1], keys[1], 0.25)
            try:
                items, got_meta = csv_round_trip(c, suffix)
                got_meta.pop('created', None)
                out[f'{name}{suffix}'] = [items, got_meta]
            except Exception as e:  # noqa
                out[f'{name}{suffix}'] = f'raises {type(e).__name__}'
    return out


def run(ctx):
    import common
    common.environment_probe(ctx, 'c15', 'probe_outcomes', 'Hpv.Props.C15.container_file_round_trip (the codec is UTF-8 both ways)')
    rng = ctx.rng
    thorough = ctx.tier == 'thorough'
    keys = ['A', 'B']
    base_ops = [('set', a, b, v) for a in keys for b in keys for v in (0.0, 0.5, -1.0)] + \
               [('get', a, b) for a in keys for b in keys] + [('len',)]
    L = 4 if thorough else 3
    hists = []
    for n in range(0, L + 1):
        for seq in itertools.product(base_ops, repeat=n):
            hists.append(list(seq) + FINAL)
            if len(hists) >= 20000:
                evaluate_hist(ctx, hists, f'exhaustive.len<={L}')
                hists = []
    evaluate_hist(ctx, hists, f'exhaustive.len<={L}')
    ctx.exhaustive[f'all histories of length <= {L} over 12 set ops (2 keys, both orders, self pairs, values 0/0.5/-1), 4 reads, len'] = True
    if not thorough:
        hists = [[rng.choice(base_ops) for _ in range(4)] + FINAL for _ in range(6000)]
        evaluate_hist(ctx, hists, 'sample.len=4')
    # random histories with special values
    K = ['A:1', 'A:2', 'B:1', 'HP:0000001', 'a:1', 'Stra\u00dfe:1', 'STRASSE:1', 'strasse:1', '\ufb01:1', 'fi:1', 'A:1 ', '\u0130:1', 'i\u0307:1']      # case / case-fold / compatibility twins are DIFFERENT keys
    V = [0.0, 5e-324, 0.1, 1 / 3, 1.7976931348623157e308, -1.0, -5e-324, -0.0, 2.5, 1e-300, float('inf'), float('nan'), float('-inf')]
    hists = []
    for _ in range(4000 if thorough else 800):
        ops = []
        for _ in range(rng.randrange(0, 31)):
            r = rng.random()
            if r < 0.12:      # values that are numbers but not python floats: negative ones are negative all the same
                v, kind = rng.choice([(-1, 'int'), (2, 'int'), (0, 'int'), (-3, 'np.int64'), (5, 'np.int64'), (-0.5, 'np.float32'), (0.5, 'np.float32'),
                                      (-2.5, 'np.float64'), (1, 'bool'), (0, 'bool')])
                ops.append(('set', rng.choice(K), rng.choice(K), v, kind))
            elif r < 0.55:
                ops.append(('set', rng.choice(K), rng.choice(K), rng.choice(V)))
            elif r < 0.85:
                ops.append(('get', rng.choice(K + ['ZZ:9']), rng.choice(K)))
            elif r < 0.93:
                ops.append(('len',))
            else:
                ops.append(('items',))
        ops += [('get', a, b) for a in K for b in K] + [('len',), ('items',)]
        hists.append(ops)
    evaluate_hist(ctx, hists, 'random.histories')
    # metadata + file round trip
    forb = forbidden_table()
    ctx.notes.append(f'forbidden characters extracted from the running code: {forb}')
    tab = run_driver([{'op': 'meta.codec', 'forb': forb, 'meta': [['k', 'v']]}])[0]
    if not tab['table_ok']:
        # proof obligation broken: the table does not satisfy TableOk -> search for a concrete failing input
        missing = [cp for cp in (59, 61, 10, 13) if cp not in forb]
        found = False
        for cp in missing:
            meta = [('a', 'x' + chr(cp) + 'y')]
            c = _cls()(metadata=dict(meta))
            c.set_similarity('A:1', 'B:1', 1.0)
            try:
                gi, gm = csv_round_trip(c, '.csv')
                ok = gm == dict(c.metadata)
            except Exception as e:  # noqa
                ok, gm = False, f'{type(e).__name__}: {e}'
            if not ok:
                found = True
                ctx.violation(f'table:{cp}', {'case': {'kind': 'meta', 'meta': [list(x) for x in meta], 'ops': [['set', 'A:1', 'B:1', 1.0]], 'suffix': '.csv'},
                                              'impl': gm, 'obligation': 'TableOk (forbidden characters must include ; = LF CR)', 'forbidden_table': forb,
                                              'theorem': 'Hpv.Props.C15.meta_round_trip'})
        if not found:
            ctx.violation('table-not-ok', {'theorem': 'Hpv.Props.C15.meta_round_trip (hypothesis TableOk)', 'forbidden_table': forb}, no_input=True)
    alphabet = ['a', 'B', ' ', '#', 'é', '\U0001F600', ';', '=', '\n', '\r', '\t', '\x0b', '\x0c', '\x1c', '\x85', ' ', ',', '"', "'", '\\', '0']
    cases = []
    for _ in range(500 if thorough else 120):
        n = rng.randrange(0, 4)
        meta, seen = [], set()
        for _ in range(n):
            k = ''.join(rng.choice(alphabet[:6] + alphabet[10:]) if rng.random() < 0.93 else rng.choice(alphabet) for _ in range(rng.randrange(0, 4)))
            v = ''.join(rng.choice(alphabet[:6] + alphabet[10:]) if rng.random() < 0.9 else rng.choice(alphabet) for _ in range(rng.randrange(0, 6)))
            if k in seen or k == 'created':
                continue
            seen.add(k)
            meta.append((k, v))
        if rng.random() < 0.35:       # a caller-supplied `created` entry anywhere in the dict (to_csv overwrites its value in place)
            meta.insert(rng.randrange(0, len(meta) + 1), ('created', 'before'))
        ops = [('set', rng.choice(K), rng.choice(K), rng.choice([v for v in V if v >= 0])) for _ in range(rng.randrange(0, 8))]
        cases.append((meta, ops))
    # keys that stress the text format: separators, quotes, line breaks inside a (quoted) field, a leading `#`, the header's own words,
    # blanks at either end, a BOM, non-ASCII; alone, next to ordinary keys and against each other
    XK = ['#X:1', '#', '#k=v', 'HP:1\n#x', 'HP:1\r\n#x', 'A\rB:1', 'A\r\nB:1', 'HP:1\n', '\nHP:1', 'H,P:1', 'HP:"2', '"', '""', "HP:'1", ' HP:1', 'HP:2 ', '',
          'term_a', 'ic_mica', '\ufeffHP:1', 'HP:\xe9', 'HP:1\x85', 'HP:1\u2028', 'HP:1;2', 'k=v', '\U0001F600:1', 'HP:1\t2', '\\', 'HP:1\x0b', 'HP:1\x1c2']
    for i, xk in enumerate(XK):
        cases.append(([('k', 'v')], [('set', xk, 'HP:0000001', 1.5), ('set', 'A:1', 'B:1', 0.25)]))
        cases.append(([], [('set', 'A:1', 'B:1', 0.25), ('set', 'ZZ:9', xk, 2.0), ('set', xk, xk, 0.5), ('set', xk, XK[(i + 7) % len(XK)], 3.0)]))
    for _ in range(200 if thorough else 40):
        ops = [('set', rng.choice(XK + K), rng.choice(XK + K), rng.choice([0.0, 0.5, 1 / 3, 5e-324, 1e300])) for _ in range(rng.randrange(1, 7))]
        cases.append(([('k', 'v')] if rng.random() < 0.5 else [], ops))
    for tail in (' ', '\t', '  ', '\x0b', '\x0c', '\x1c', '\x85', '\u2028', '\xa0'):      # blanks at either end of the last / only value
        cases.append(([('created', 'x'), ('k', 'v' + tail)], [('set', 'A:1', 'B:1', 1.0)]))
        cases.append(([('k', tail + 'v'), ('created', 'x')], []))
        cases.append(([('k', 'v' + tail)], []))
    for ch in (';', '=', '\n', '\r'):      # each reserved character in key and in value position
        cases.append(([('k' + ch, 'v')], [('set', 'A:1', 'B:1', 1.0)]))
        cases.append(([('k', 'v' + ch + 'w')], [('set', 'A:1', 'B:1', 1.0)]))
        cases.append(([('ok', 'fine'), ('k', ch)], []))
    evaluate_meta(ctx, cases, forb, 'metadata+csv-round-trip')
    evaluate_csv_dialect(ctx, thorough)
    many_items(ctx, rng, thorough)


def replay(ctx, data):
    c = data['case']
    if c['kind'] == 'hist':
        evaluate_hist(ctx, [[tuple(o) for o in c['ops']]], 'replay')
    elif c['kind'] == 'many-items':
        many_items(ctx, ctx.rng, c['n'] > 100000)
    elif c['kind'] == 'csv-dialect':
        import csv
        rq = c['request']
        o = run_driver([rq])[0]
        if rq['op'] == 'csv.read':
            try:
                e = {'records': list(csv.reader(io.StringIO(rq['text'], newline='')))}
            except csv.Error:
                e = {'err': 'csv.Error'}
        else:
            h = io.StringIO(newline='')
            csv.writer(h, quoting=csv.QUOTE_ALL if rq.get('quote_all') else csv.QUOTE_MINIMAL).writerows(rq['rows'])
            e = {'text': h.getvalue()}
        if o != e:
            ctx.violation('csv-dialect.' + rq['op'], {'case': c, 'python_csv': e, 'model': o}, no_input=True)
    else:
        evaluate_meta(ctx, [([tuple(x) for x in c['meta']], [tuple(o) for o in c['ops']])], forbidden_table(), 'replay')
