"""C16 — readers and writers treat paths, gzip paths and open streams alike (util/_io.py and its four readers / two writers)."""
import gzip
import io
import json
import os
import pathlib
import re
import shutil
import tempfile
import typing
import warnings

from common import run_driver

RULE = ('(a) dispatcher level: for a concrete instance of each of the 8 listed source kinds and 8 junk kinds the isinstance facts are '
        'measured on the running interpreter and sent to the Lean model (FactsFit + dispatchRead/dispatchWrite); the implementation '
        'must accept exactly what the model accepts and the text read through the returned handle must be the content. (b) end to end: '
        'the full product {path, .gz path, open text file, open binary file, StringIO, BytesIO, gzip text stream, gzip binary stream, '
        'junk...} x {load_minimal_ontology, load_ontology, SimpleHpoaDiseaseLoader.load, SimilarityContainer.from_csv} x several '
        'contents (ASCII, non-ASCII, one with U+2028/U+2029/U+0085/FF/FS/VT inside a field, and one starting with a byte-order mark; the SAME path is overwritten with new content between '
        'loads; directory names containing ".gz") x 3 layouts of the .gz file (one member, three concatenated members, bgzip-style '
        'blocks): the outcome - canonical dump of the loaded object, or the exception type - must equal the outcome for the plain '
        'path; junk -> ValueError. Writers: '
        '{path, .gz path, text file stream, binary file stream, junk} x {SimilarityContainer.to_csv, AnnotationIcContainer.to_csv}, every '
        'target pre-filled with a longer stale table: bytes '
        'written (gunzipped, `created` stamp masked) must be identical. Every case probes one (function, kind, content) cell; distinct by '
        'that triple.')

THEOREM = 'Hpv.Props.C16.dispatch_table / same_text / same_result'
KINDS = ('path', 'gzPath', 'textFile', 'binaryFile', 'stringIO', 'bytesIO', 'gzipText', 'gzipBinary')


def facts_of(obj):
    return {
        'isStr': isinstance(obj, str), 'typingBinaryIO': isinstance(obj, typing.BinaryIO), 'bufferedIOBase': isinstance(obj, io.BufferedIOBase),
        'rawIOBase': isinstance(obj, io.RawIOBase), 'typingTextIO': isinstance(obj, typing.TextIO), 'textIOBase': isinstance(obj, io.TextIOBase),
        'endsWithGz': isinstance(obj, str) and obj.endswith('.gz'),
        'looksLikeUrl': isinstance(obj, str) and (obj.startswith('http://') or obj.startswith('https://')),
    }


class World:
    """a scratch directory whose file names are REUSED for every content (a stale cache keyed on the path would show)"""

    def __init__(self):
        self.dir = tempfile.mkdtemp(prefix='verif-c16-')
        # a directory name that contains '.gz' but does not end with it
        # ... and a dated component, as release folders have (nothing about the PATH may leak into what is loaded)
        self.sub = os.path.join(self.dir, 'release-2024.gz.unpacked', '2024-01-15', 'v2023-10-09')
        os.makedirs(self.sub)
        self.opened = []

    def put(self, text, suffix, layout='single'):
        """layout of the .gz file: 'single' member; 'multi' = three concatenated members (`cat a.gz b.gz c.gz`, appended batches);
        'bgzf' = many small members closed by an empty one (what bgzip writes).  All inflate to the same bytes."""
        self.plain = os.path.join(self.sub, 'content' + suffix)
        self.gz = os.path.join(self.sub, 'content' + suffix + '.gz')
        data = text.encode('utf-8')
        with open(self.plain, 'wb') as fh:
            fh.write(data)
        if layout == 'single':
            chunks = [data]
        elif layout == 'multi':
            a, b = len(data) // 3, 2 * len(data) // 3
            chunks = [data[:a], data[a:b], data[b:]]
        else:
            chunks = [data[i:i + 97] for i in range(0, len(data), 97)] + [b'']
        with open(self.gz, 'wb') as fh:
            for ch in chunks:
                fh.write(gzip.compress(ch))
        assert gzip.open(self.gz, 'rb').read() == data
        self.text, self.data = text, data

    def source(self, kind):
        if kind == 'path':
            return self.plain
        if kind == 'gzPath':
            return self.gz
        if kind == 'textFile':
            o = open(self.plain, 'r', encoding='utf-8', newline='')
        elif kind == 'binaryFile':
            o = open(self.plain, 'rb')
        elif kind == 'stringIO':
            o = io.StringIO(self.text, newline='')
        elif kind == 'bytesIO':
            o = io.BytesIO(self.data)
        elif kind == 'gzipText':
            o = gzip.open(self.gz, 'rt', encoding='utf-8', newline='')
        elif kind == 'gzipBinary':
            o = gzip.open(self.gz, 'rb')
        else:
            raise ValueError(kind)
        self.opened.append(o)
        return o

    def junk(self):
        import argparse
        import tarfile
        import types
        import zipfile
        zp, tp = os.path.join(self.dir, 'junk.zip'), os.path.join(self.dir, 'junk.tar')
        if not os.path.exists(zp):
            with zipfile.ZipFile(zp, 'w') as z:
                z.writestr('a.txt', 'x')
            with tarfile.open(tp, 'w'):
                pass
        z, t = zipfile.ZipFile(zp, 'r'), tarfile.open(tp, 'r')
        self.opened += [z, t]
        # things that are NOT streams although they carry stream-like attributes (`mode`, `name`, `read`, `closed`)
        return [('None', None), ('int', 3), ('float', 2.5), ('bytes-path', self.plain.encode()), ('pathlib.Path', pathlib.Path(self.plain)),
                ('list', [self.plain]), ('object', object()), ('dict', {'file': self.plain}),
                ('ZipFile', z), ('TarFile', t), ('Namespace(mode=r)', argparse.Namespace(mode='r', name=self.plain)),
                ('SimpleNamespace(mode=rb, closed)', types.SimpleNamespace(mode='rb', closed=False, name=self.plain)),
                ('bool', True), ('tuple', (self.plain,)), ('bytearray', bytearray(self.plain.encode()))]

    def close(self):
        for o in self.opened:
            try:
                o.close()
            except Exception:  # noqa
                pass
        self.opened = []

    def cleanup(self):
        self.close()
        shutil.rmtree(self.dir, ignore_errors=True)


# ------------------------------------------------------------------ contents and canonical dumps

def obo_doc(label, version, extra):
    P = 'http://purl.obolibrary.org/obo/'
    nodes = [{'id': P + 'HP_0000001', 'lbl': 'All', 'type': 'CLASS'},
             {'id': P + 'HP_0000118', 'lbl': label, 'type': 'CLASS',
              'meta': {'definition': {'val': 'déf ' + label, 'xrefs': ['HPO:probinson']}, 'comments': ['c1 ' + label],
                       'synonyms': [{'pred': 'hasExactSynonym', 'val': 'syn ' + label, 'xrefs': []}],
                       'basicPropertyValues': [{'pred': P + 'oboInOwl#hasAlternativeId', 'val': 'HP:0000999'}]}}]
    edges = [{'sub': P + 'HP_0000118', 'pred': 'is_a', 'obj': P + 'HP_0000001'}]
    for i in range(extra):
        nodes.append({'id': P + f'HP_00002{i:02d}', 'lbl': f'{label} {i}', 'type': 'CLASS'})
        edges.append({'sub': P + f'HP_00002{i:02d}', 'pred': 'is_a', 'obj': P + ('HP_0000118' if i % 2 == 0 else 'HP_0000001')})
    meta = {} if version is None else {'version': P + f'hp/releases/{version}/hp.json'}
    return json.dumps({'graphs': [{'id': 'hp', 'nodes': nodes, 'edges': edges, 'meta': meta}]}, ensure_ascii=False)


def dump_ontology(o):
    terms = []
    for t in o.terms:
        rec = [t.identifier.value, t.name, sorted(a.value for a in t.alt_term_ids)]
        if hasattr(t, 'definition'):
            rec += [None if t.definition is None else [t.definition.definition, list(t.definition.xrefs)], t.comment,
                    None if t.synonyms is None else [[s.name, str(s.category)] for s in t.synonyms]]
        terms.append(rec)
    g = o.graph
    return {'version': o.version, 'terms': sorted(terms), 'root': g.root.value,
            'parents': sorted([n.value, sorted(p.value for p in g.get_parents(n))] for n in g)}


def hpoa_text(name, n):
    lines = ['#description: "HPO annotations"', '#version: 2024-04-26',
             'database_id\tdisease_name\tqualifier\thpo_id\treference\tevidence\tonset\tfrequency\tsex\tmodifier\taspect\tbiocuration']
    for i in range(n):
        lines.append(f'OMIM:1000{i % 3}\t{name} {i % 3}\t\tHP:00002{i % 4:02d}\tPMID:{100 + i}\tPCS\t\t{i + 1}/{i + 3}\t\t\tP\tHPO:x[2020-01-01]')
    lines.append(f'OMIM:10000\t{name} 0\t\tHP:0000007\tPMID:1\tTAS\t\t\t\t\tI\tHPO:x')
    return '\n'.join(lines) + '\n'


def dump_diseases(ds):
    out = []
    for d in ds:
        anns = sorted([a.identifier.value, a.numerator, a.denominator, sorted(r.identifier.value for r in a.references)] for a in d.annotations)
        out.append([d.identifier.value, d.name, anns, sorted(getattr(m, 'value', m) for m in d.modes_of_inheritance)])
    return {'version': ds.version, 'n': len(ds), 'diseases': sorted(out)}


def csv_text(tag, n):
    from hpotk.algorithm.similarity import SimilarityContainer
    c = SimilarityContainer(metadata={'note': tag})
    for i in range(n):
        c.set_similarity(f'HP:00002{i:02d}', f'HP:00002{(i * 3) % 7:02d}', (i + 1) / 3)
    buf_dir = tempfile.mkdtemp(prefix='verif-c16-csv-')
    try:
        p = os.path.join(buf_dir, 'x.csv')
        c.to_csv(p)
        return open(p, encoding='utf-8', newline='').read()
    finally:
        shutil.rmtree(buf_dir, ignore_errors=True)


def dump_sim(c):
    return {'items': sorted([a, b, float(v).hex()] for a, b, v in c.items()), 'meta': dict(c.metadata)}


def readers():
    import hpotk
    from hpotk.annotations.load.hpoa import SimpleHpoaDiseaseLoader
    from hpotk.algorithm.similarity import SimilarityContainer
    d = tempfile.mkdtemp(prefix='verif-c16-toy-')
    try:
        p = os.path.join(d, 'toy.json')
        with open(p, 'w', encoding='utf-8') as fh:
            fh.write(obo_doc('Phenotypic abnormality', '2024-01-01', 8))
        toy = hpotk.load_minimal_ontology(p)          # a plain path: the most basic source kind
    finally:
        shutil.rmtree(d, ignore_errors=True)
    loader = SimpleHpoaDiseaseLoader(toy)
    return {
        'load_minimal_ontology': (lambda src: dump_ontology(hpotk.load_minimal_ontology(src)), 'json'),
        'load_ontology': (lambda src: dump_ontology(hpotk.load_ontology(src)), 'json'),
        'SimpleHpoaDiseaseLoader.load': (lambda src: dump_diseases(loader.load(src)), 'hpoa'),
        'SimilarityContainer.from_csv': (lambda src: dump_sim(SimilarityContainer.from_csv(src)), 'csv'),
    }


def big_csv_text():
    """more than 2 MiB, mostly 3- and 4-byte characters; a short ASCII pad is chosen so that the bytes at offsets 2^20 and 2^21 of the encoded
    text (and at as many multiples of 64 KiB as possible) are CONTINUATION bytes: a reader that decodes the data block by block cuts a character"""
    head = csv_text('big \u00e9', 2)
    rows = []
    for i in range(21000):
        rows.append(f'HP:{i:07d}{"😀" * (18 + i % 5)}\u8868,ZZ:{"\u75c5" * (9 + i % 4)}{i:07d},{(i % 97) + 0.5}\r\n')
    body = ''.join(rows)
    best, best_score = '', -1
    for pad in range(0, 12):
        extra = f'PAD:{"x" * pad},PAD:0,1.0\r\n'
        data = (head + extra + body).encode('utf-8')
        if len(data) <= 2 ** 21 + 8:
            continue
        must = all(0x80 <= data[o] <= 0xBF for o in (2 ** 20, 2 ** 21))
        score = sum(1 for o in range(2 ** 16, len(data), 2 ** 16) if 0x80 <= data[o] <= 0xBF) + (1000 if must else 0)
        if score > best_score:
            best, best_score = extra, score
    return head + best + body


def contents():
    """the last content of each kind starts with a byte-order mark: whatever a reader makes of it (a result or an error), it must make
    the same of it for every source kind"""
    return {
        'json': [('ascii', obo_doc('Phenotypic abnormality', '2024-01-01', 3)), ('non-ascii', obo_doc('Anomalie phénotypique 表現型 😀', '2023-10-09', 5)),
                 ('ascii-2', obo_doc('Another label', '2022-02-02', 2)), ('no-version', obo_doc('Unversioned', None, 2)), ('bom', '\ufeff' + obo_doc('With BOM é', '2021-01-01', 2)),
                 ('odd-separators', obo_doc('L\u2028M\x85N\x0cO\x1cP\u2029Q', '2020-05-05', 2)),
                 ('crlf', json.dumps(json.loads(obo_doc('CRLF é', '2020-06-06', 2)), indent=1, ensure_ascii=False).replace('\n', '\r\n'))],
        'hpoa': [('ascii', hpoa_text('DISEASE', 5)), ('non-ascii', hpoa_text('MALADIE é ß 病', 7)), ('ascii-2', hpoa_text('OTHER', 3)),
                 ('bom', '\ufeff' + hpoa_text('BOM é', 4)),
                 ('odd-separators', hpoa_text('A\u2028B\x85C\x0cD\x1cE\x0bF\u2029G', 4)),
                 ('crlf', hpoa_text('CRLF é', 4).replace('\n', '\r\n')), ('lone-cr', hpoa_text('LONE CR', 4).replace('\n', '\r'))],
        'csv': [('big-non-ascii', big_csv_text()), ('a', csv_text('first', 4)), ('b', csv_text('second é', 6)), ('c', csv_text('third', 2)), ('bom', '\ufeff' + csv_text('bom', 3)),
                ('odd-separators', csv_text('m\u2028n\x85o\x0cp\x1cq\x0br\u2029s', 3)),
                ('crlf', csv_text('crlf é', 3).replace('\r\n', '\n').replace('\n', '\r\n')),
                # a bare carriage return / a line break followed by `#` INSIDE a quoted term id, a record that begins with `#`, and a file
                # whose lines end with a bare carriage return: every source kind must make the same of the same characters
                ('quoted-cr', csv_text('qcr', 2) + '"A\rB:1",HP:0000002,1.5\r\n"HP:1\n#x","C\r\nD:2",0.5\r\n#X:1,HP:0000003,2.5\r\n'),
                ('lone-cr', csv_text('lcr é', 3).replace('\r\n', '\n').replace('\n', '\r'))],
    }


# ------------------------------------------------------------------ the checks

def dispatcher_level(ctx, w):
    from hpotk.util import open_text_io_handle_for_reading, open_text_io_handle_for_writing
    import hpotk.util as hu
    w.put('héllo wörld\nline 2 😀\n', '.txt')
    objs = [(k, k, w.source(k)) for k in KINDS] + [('other', name, o) for name, o in w.junk()]
    reps = run_driver([{'op': 'io.dispatch', 'kind': k, 'facts': facts_of(o)} for k, _, o in objs])
    for (k, name, o), rep in zip(objs, reps):
        ctx.case(['dispatch', name], True, 'dispatcher', sample={'kind': name, 'facts': facts_of(o), 'model': rep})
        try:
            h = open_text_io_handle_for_reading(o)
            got = h.read()
            impl = 'accept' if got == w.text else f'accepts-but-reads {got[:40]!r}'
        except ValueError:
            impl = 'reject'
        except Exception as e:  # noqa
            impl = f'raises {type(e).__name__}'
        model = 'reject' if rep['read'] == 'reject' else 'accept'
        want = 'reject' if k == 'other' else 'accept'
        if not rep['fits'] or impl != model or impl != want:
            ctx.violation(f'dispatch-read:{name}', {'case': {'kind': 'dispatch', 'source': name, 'facts': facts_of(o)}, 'impl': impl, 'model': rep,
                                                    'required_by_property': want, 'theorem': 'Hpv.Props.C16.dispatch_table (hypothesis FactsFit)'})
    w.close()
    # the deprecated alias that is still shipped must dispatch like the function it forwards to
    objs = [(k, k, w.source(k)) for k in KINDS] + [('other', name, o) for name, o in w.junk()]
    for k, name, o in objs:
        ctx.case(['dispatch-alias', name], True, 'dispatcher(deprecated alias open_text_io_handle)')
        try:
            with warnings.catch_warnings():
                warnings.simplefilter('ignore')
                got = hu.open_text_io_handle(o).read()
            impl = 'accept' if got == w.text else f'accepts-but-reads {got[:40]!r}'
        except ValueError:
            impl = 'reject'
        except Exception as e:  # noqa
            impl = f'raises {type(e).__name__}'
        want = 'reject' if k == 'other' else 'accept'
        if impl != want:
            ctx.violation(f'dispatch-read-alias:{name}', {'case': {'kind': 'dispatch', 'source': name, 'facts': facts_of(o)}, 'impl': impl,
                                                          'required_by_property': want, 'theorem': 'Hpv.Props.C16.dispatch_table'})
    w.close()


GZ_KINDS = ('gzPath', 'gzipText', 'gzipBinary')


def outcome_of(fn, src):
    try:
        with warnings.catch_warnings():
            warnings.simplefilter('ignore')
            return ('ok', fn(src))
    except Exception as e:  # noqa
        return ('raises', type(e).__name__)


def bounded_outcome(fn, src, seconds):
    import threading
    box = {}

    def work():
        box['v'] = outcome_of(fn, src)
    th = threading.Thread(target=work, daemon=True)
    th.start()
    th.join(seconds)
    return (not th.is_alive()), box.get('v')


class _Unseekable(io.RawIOBase):
    """a binary stream like a socket or a pipe: readable, neither seekable nor tell-able"""

    def __init__(self, data):
        self._b = io.BytesIO(data)

    def readable(self):
        return True

    def seekable(self):
        return False

    def readinto(self, buf):
        chunk = self._b.read(min(len(buf), 7))
        buf[:len(chunk)] = chunk
        return len(chunk)


def variant_sources(w, text, ctype):
    """(name, make) pairs; make() -> (source, closer). Every source delivers exactly the content `text`."""
    import threading
    data = text.encode('utf-8')
    junk_b = b'{"this is": "what the caller read before"}\n' * 3
    junk_t = junk_b.decode()

    def positioned_bytesio():
        o = io.BytesIO(junk_b + data)
        o.read(len(junk_b))
        return o, o.close

    def positioned_stringio():
        o = io.StringIO(junk_t + text, newline='')
        o.read(len(junk_t))
        return o, o.close

    def positioned_binary_file():
        pth = os.path.join(w.sub, 'prefixed.' + ctype)
        with open(pth, 'wb') as fh:
            fh.write(junk_b + data)
        o = open(pth, 'rb')
        o.read(len(junk_b))
        return o, o.close

    def positioned_text_file():
        pth = os.path.join(w.sub, 'prefixed-t.' + ctype)
        with open(pth, 'wb') as fh:
            fh.write(junk_b + data)
        o = open(pth, 'r', encoding='utf-8', newline='')
        for _ in range(3):
            o.readline()
        return o, o.close

    def unseekable():
        o = io.BufferedReader(_Unseekable(data))
        return o, o.close

    def fifo(suffix):
        def make():
            pth = os.path.join(w.sub, 'fifo.' + ctype + suffix)
            if os.path.exists(pth):
                os.remove(pth)
            os.mkfifo(pth)
            payload = data if not suffix else gzip.compress(data)

            def feed():
                try:
                    fd = os.open(pth, os.O_WRONLY)       # blocks until the reader opens the FIFO
                    with os.fdopen(fd, 'wb') as fh:
                        fh.write(payload)
                except OSError:
                    pass
            th = threading.Thread(target=feed, daemon=True)
            th.start()

            def closer():
                # if nobody opened the FIFO for reading the feeder is still blocked: open it once ourselves to release it
                if th.is_alive():
                    try:
                        fd = os.open(pth, os.O_RDONLY | os.O_NONBLOCK)
                        th.join(2)
                        os.close(fd)
                    except OSError:
                        pass
                try:
                    os.remove(pth)
                except OSError:
                    pass
            return pth, closer
        return make
    out = [('bytesIO-after-a-prefix-was-read', positioned_bytesio), ('stringIO-after-a-prefix-was-read', positioned_stringio),
           ('binaryFile-after-a-prefix-was-read', positioned_binary_file), ('textFile-after-lines-were-read', positioned_text_file),
           ('unseekable-binary-stream', unseekable)]
    if hasattr(os, 'mkfifo'):
        out += [('path-to-a-FIFO', fifo('')), ('gz-path-to-a-FIFO', fifo('.gz'))]
    return out


def model_reads_csv(ctx, text, tag, ref):
    """the csv contents of this check (CR LF, lone CR, a carriage return inside a quoted field, a BOM, odd separators) through the model
    of `from_csv` - header filter, metadata, csv state machine, DictReader (Hpv/Csv.lean, C15.file_round_trip) - against what the library
    made of the plain path"""
    from hpotk.algorithm.similarity import SimilarityContainer
    lines = list(io.StringIO(text, newline=''))          # the physical lines a newline='' handle yields
    try:
        json.dumps(lines).encode('utf-8')
    except UnicodeEncodeError:
        return
    rep = run_driver([{'op': 'sim.read_file', 'lines': lines}])[0]
    ctx.case(['model-read', tag], True, 'csv contents through the csv model')
    if 'error' in rep:
        ctx.count('csv-model.rejects-input')
        return
    if 'err' in rep['csv'] or 'err' in rep['meta']:
        model = ('raises', None)
    else:
        try:
            c = SimilarityContainer()
            for row in rep['csv']['rows']:
                d = {k: v for k, v in row}
                c.set_similarity(d['term_a'], d['term_b'], float(d['ic_mica']))
            model = ('ok', {'items': sorted([a, b, float(v).hex()] for a, b, v in c.items()), 'meta': {k: v for k, v in rep['meta']['ok']}})
        except Exception:  # noqa
            model = ('raises', None)
    same = (model[0] == ref[0]) and (model[0] == 'raises' or model[1] == ref[1])
    ctx.count('csv-model.' + ('agrees' if same else 'differs'))
    if not same:
        # the model of the reader is off for this content (or the reader changed): a broken tie of C15's file theorems
        ctx.violation(f'csv-model:{tag}', {'case': {'kind': 'reader', 'function': 'SimilarityContainer.from_csv', 'source': 'path', 'content': tag, 'gz_layout': 'single'},
                                           'impl': str(ref)[:500], 'model': str(model)[:500], 'theorem': 'Hpv.Props.C15.file_round_trip (model of the reader)'}, no_input=True)


def reader_product(ctx, w):
    rd = readers()
    cont = contents()
    for fname, (fn, ctype) in rd.items():
        for tag, text in cont[ctype]:
            ref = None
            for layout in ('single', 'multi', 'bgzf'):
                w.put(text, '.' + ctype, layout)            # the same file names are overwritten for every content
                if ref is None:
                    ref = outcome_of(fn, w.source('path'))          # reference: the plain path
                    if ref[0] == 'raises' and tag != 'bom':
                        ctx.violation(f'{fname}:reference-raises', {'case': {'kind': 'reader', 'function': fname, 'content': tag}, 'impl': ref[1]})
                        break
                if layout == 'single' and ctype == 'csv' and len(text) < 100000:
                    model_reads_csv(ctx, text, tag, ref)
                for kind in (KINDS if layout == 'single' else GZ_KINDS):
                    ctx.case(['read', fname, kind, tag, layout], True, 'readers x kinds x contents x gz layouts',
                             sample={'function': fname, 'source': kind, 'content': tag, 'gz_layout': layout})
                    got = outcome_of(fn, w.source(kind))
                    w.close()
                    if got != ref:
                        ctx.violation(f'{fname}:{kind}' + ('' if layout == 'single' else f':{layout}'),
                                      {'case': {'kind': 'reader', 'function': fname, 'source': kind, 'content': tag, 'gz_layout': layout},
                                       'impl': {'got': str(got)[:600], 'reference(plain path)': str(ref)[:600]},
                                       'theorem': 'Hpv.Props.C16.same_result'})
            # the same content through sources that are NOT a regular file read from its start: a stream the caller has already read a
            # prefix of (what is left IS the content), a path to a FIFO (size 0, not seekable), an unseekable binary stream
            if ref is not None and ref[0] == 'ok' and tag in ('ascii', 'non-ascii', 'a', 'b', 'big-non-ascii'):
                w.put(text, '.' + ctype, 'single')
                for vname, make in variant_sources(w, text, ctype):
                    ctx.case(['read', fname, vname, tag], True, 'readers x positioned / unseekable / FIFO sources',
                             sample={'function': fname, 'source': vname, 'content': tag})
                    try:
                        src, closer = make()
                    except Exception as e:  # noqa
                        ctx.count(f'variant-source-unavailable.{vname}')
                        continue
                    done, got = bounded_outcome(fn, src, 20)
                    closer()
                    if not done:
                        got = ('raises', 'does not return within 20 s')
                    if got != ref:
                        ctx.violation(f'{fname}:{vname}', {'case': {'kind': 'reader', 'function': fname, 'source': vname, 'content': tag, 'gz_layout': 'single'},
                                                           'impl': {'got': str(got)[:600], 'reference(plain path)': str(ref)[:600]},
                                                           'theorem': 'Hpv.Props.C16.same_result'})
            # a text file the caller opened the DEFAULT way (universal newlines: CRLF / CR arrive as LF) is the same document; the
            # result must not depend on how its lines end. (Not for the content with a carriage return INSIDE a quoted field: there the
            # caller's stream delivers other characters.)
            if ref is not None and ref[0] == 'ok' and tag != 'quoted-cr':
                w.put(text, '.' + ctype, 'single')
                ctx.case(['read', fname, 'textFileUniversal', tag], True, 'readers x kinds x contents x gz layouts',
                         sample={'function': fname, 'source': 'textFileUniversal', 'content': tag})
                with open(w.plain, 'r', encoding='utf-8') as src:
                    got = outcome_of(fn, src)
                if got != ref:
                    ctx.violation(f'{fname}:textFileUniversal', {'case': {'kind': 'reader', 'function': fname, 'source': 'textFileUniversal', 'content': tag, 'gz_layout': 'single'},
                                                                  'impl': {'got': str(got)[:600], 'reference(plain path)': str(ref)[:600]},
                                                                  'theorem': 'Hpv.Props.C16.same_result'})
            # a text stream the CALLER opened with another encoding carries the same characters: same result
            if tag == 'ascii-2' or tag == 'c':
                latin = text.replace('Another label', 'Étiquette ü ß').replace('third', 'troisième ü').replace('OTHER', 'AUTRE é')
                with open(os.path.join(w.sub, 'utf8' + '.' + ctype), 'w', encoding='utf-8', newline='') as fh:
                    fh.write(latin)
                want = outcome_of(fn, os.path.join(w.sub, 'utf8' + '.' + ctype))
                for enc in ('latin-1', 'utf-16', 'cp1252', 'utf-8-sig'):
                    pth = os.path.join(w.sub, 'enc-' + enc + '.' + ctype)
                    with open(pth, 'w', encoding=enc, newline='') as fh:
                        fh.write(latin)
                    ctx.case(['read', fname, 'textFile:' + enc, tag], True, 'readers x caller-opened text streams in other encodings')
                    with open(pth, 'r', encoding=enc, newline='') as src:
                        got = outcome_of(fn, src)
                    if got != want:
                        ctx.violation(f'{fname}:textFile:{enc}', {'case': {'kind': 'reader', 'function': fname, 'source': f'text stream opened with encoding={enc}', 'content': tag},
                                                                  'impl': {'got': str(got)[:500], 'reference(plain utf-8 path)': str(want)[:500]},
                                                                  'theorem': 'Hpv.Props.C16.same_result'})
            for name, obj in w.junk():
                ctx.case(['read', fname, name, tag], True, 'readers x junk')
                try:
                    with warnings.catch_warnings():
                        warnings.simplefilter('ignore')
                        fn(obj)
                    impl = 'accepted'
                except ValueError:
                    impl = 'ValueError'
                except Exception as e:  # noqa
                    impl = f'raises {type(e).__name__}'
                if impl != 'ValueError':
                    ctx.violation(f'{fname}:junk:{name}', {'case': {'kind': 'reader', 'function': fname, 'source': name, 'content': tag},
                                                          'impl': impl, 'required_by_property': 'ValueError', 'theorem': 'Hpv.Props.C16.dispatch_table'})


def mask(text):
    return re.sub(r'created=[^;\n]*', 'created=<stamp>', text)


def writer_product(ctx, w):
    from hpotk.algorithm.similarity import SimilarityContainer
    from hpotk.algorithm.similarity._model import SimpleAnnotationIcContainer
    from hpotk.model import TermId

    def sim(tag, n):
        c = SimilarityContainer(metadata={'note': tag})
        for i in range(n):
            c.set_similarity(f'HP:00002{i:02d}', f'HP:00002{(i * 5) % 9:02d}', (i + 1) / 7)
        return c

    def ic(tag, n):
        return SimpleAnnotationIcContainer({TermId.from_curie(f'HP:00002{i:02d}'): i / 3 for i in range(n)}, metadata={'note': tag})
    makers = {'SimilarityContainer.to_csv': sim, 'AnnotationIcContainer.to_csv': ic}
    for fname, mk in makers.items():
        for tag, n in (('first', 3), ('second', 6), ('third', 1)):
            outputs = {}
            for kind in ('path', 'gzPath', 'textFile', 'binaryFile', 'gzipBinarySink', 'textFile-utf16'):
                ctx.case(['write', fname, kind, tag], True, 'writers x kinds x contents', sample={'function': fname, 'target': kind, 'content': tag})
                plain = os.path.join(w.sub, 'out.csv')
                gz = os.path.join(w.sub, 'out.csv.gz')
                # the target exists already and holds LONGER content (a previous, bigger table): writing must replace it
                with open(plain, 'wb') as fh:
                    fh.write(b'#stale\n' + b'HP:9999999,HP:9999998,9.5\n' * 400)
                with gzip.open(gz, 'wb') as fh:
                    fh.write(b'#stale\n' + b'HP:9999999,HP:9999998,9.5\n' * 400)
                try:
                    c = mk(tag, n)
                    if kind == 'path':
                        c.to_csv(plain)
                    elif kind == 'gzPath':
                        c.to_csv(gz)
                    elif kind == 'textFile':
                        with open(plain, 'w', encoding='utf-8', newline='') as fh:
                            c.to_csv(fh)
                    elif kind == 'textFile-utf16':          # the caller's text stream decides the encoding: the CHARACTERS are the same
                        with open(plain, 'w', encoding='utf-16', newline='') as fh:
                            c.to_csv(fh)
                    elif kind == 'gzipBinarySink':          # an open binary stream that happens to compress (its name ends with .gz)
                        with gzip.open(gz, 'wb') as fh:
                            c.to_csv(fh)
                    else:
                        with open(plain, 'wb') as fh:
                            c.to_csv(fh)
                    data = gzip.open(gz, 'rb').read() if kind in ('gzPath', 'gzipBinarySink') else open(plain, 'rb').read()
                    outputs[kind] = mask(data.decode('utf-16' if kind == 'textFile-utf16' else 'utf-8').replace('\r\n', '\n'))
                except Exception as e:  # noqa
                    outputs[kind] = f'raises {type(e).__name__}: {e}'
            ref = outputs['path']
            for kind, out in outputs.items():
                if out != ref or out.startswith('raises'):
                    ctx.violation(f'{fname}:{kind}', {'case': {'kind': 'writer', 'function': fname, 'target': kind, 'content': tag},
                                                      'impl': out[:500], 'reference(path)': ref[:500], 'theorem': 'Hpv.Props.C16.same_result'})
            for name, obj in w.junk():
                if name == 'bytes-path':
                    continue
                ctx.case(['write', fname, name, tag], True, 'writers x junk')
                try:
                    mk(tag, n).to_csv(obj)
                    impl = 'accepted'
                except ValueError:
                    impl = 'ValueError'
                except Exception as e:  # noqa
                    impl = f'raises {type(e).__name__}'
                if impl != 'ValueError':
                    ctx.violation(f'{fname}:junk:{name}', {'case': {'kind': 'writer', 'function': fname, 'target': name, 'content': tag},
                                                          'impl': impl, 'required_by_property': 'ValueError', 'theorem': 'Hpv.Props.C16.dispatch_table'})


def probe_outcomes():
    """a digest of what every reader makes of a non-ASCII content through every source kind, and of the bytes every writer produces:
    computed once here and once in a child interpreter under a hostile environment (ASCII locale, UTF-8 mode off, odd time zone)"""
    import hashlib
    out = {}
    w = World()
    try:
        rd = readers()
        cont = contents()
        for fname, (fn, ctype) in rd.items():
            tag, text = cont[ctype][1]            # the non-ASCII content
            if ctype == 'csv':                    # a literal file (to_csv would stamp it with the clock of the writing process)
                text = ('#Information content of the most informative common ancestor for term pairs\n'
                        '#note=second é ß 病 😀;created=2024-01-01-00:00:00\nterm_a,term_b,ic_mica\n'
                        'HP:0000001,HP:0000002,0.3333333333333333\nHP:0000003,HP:0000003,2.5\n')
            w.put(text, '.' + ctype)
            for kind in KINDS:
                got = outcome_of(fn, w.source(kind))
                w.close()
                out[f'read {fname} {kind}'] = got[1] if got[0] == 'raises' else hashlib.sha256(repr(got[1]).encode('utf-8')).hexdigest()[:16]
        from hpotk.algorithm.similarity import SimilarityContainer
        for kind in ('path', 'gzPath', 'textFile', 'binaryFile'):
            c = SimilarityContainer(metadata={'note': 'é ß 病 😀'})
            c.set_similarity('HP:0000001', 'HP:0000002', 1 / 3)
            plain, gz = os.path.join(w.sub, 'p.csv'), os.path.join(w.sub, 'p.csv.gz')
            try:
                if kind == 'path':
                    c.to_csv(plain)
                elif kind == 'gzPath':
                    c.to_csv(gz)
                elif kind == 'textFile':
                    with open(plain, 'w', encoding='utf-8', newline='') as fh:
                        c.to_csv(fh)
                else:
                    with open(plain, 'wb') as fh:
                        c.to_csv(fh)
                data = gzip.open(gz, 'rb').read() if kind == 'gzPath' else open(plain, 'rb').read()
                out[f'write to_csv {kind}'] = hashlib.sha256(mask(data.decode('utf-8').replace('\r\n', '\n')).encode('utf-8')).hexdigest()[:16]
            except Exception as e:  # noqa
                out[f'write to_csv {kind}'] = f'raises {type(e).__name__}'
    finally:
        w.cleanup()
    return out


def environment_probe(ctx):
    import common
    here = probe_outcomes()
    there = common.run_in_child('c16', 'probe_outcomes', common.HOSTILE_ENV)
    ctx.case(['environment-probe'], True, 'readers+writers under an ASCII locale / UTF-8 mode off / another time zone (child interpreter)',
             sample={'cells': len(here)})
    if 'child_failed' in there:
        ctx.violation('environment:child-raises', {'case': {'kind': 'environment', 'env': common.HOSTILE_ENV}, 'impl': there['child_failed'][-600:],
                                                   'theorem': 'Hpv.Props.C16.same_result'})
        return
    diff = {k: [here[k], there.get(k)] for k in here if here[k] != there.get(k)}
    if diff:
        ctx.violation('environment:' + sorted(diff)[0], {'case': {'kind': 'environment', 'env': common.HOSTILE_ENV},
                                                         'impl': {'differing cells [this process, hostile environment]': dict(list(diff.items())[:6])},
                                                         'theorem': 'Hpv.Props.C16.same_result (the result is a function of the content)'})


def run(ctx):
    w = World()
    try:
        environment_probe(ctx)
        dispatcher_level(ctx, w)
        reader_product(ctx, w)
        writer_product(ctx, w)
        if ctx.tier == 'thorough':          # a second pass over the same paths (caches keyed on the path would now be warm)
            reader_product(ctx, w)
    finally:
        w.cleanup()
    ctx.exhaustive['the full product of source kinds (8 listed + 8 junk) x 4 readers x 4 contents (x 3 gz layouts for the gz-backed kinds), and 4 targets (+ junk) x 2 writers x 3 contents'] = True


def replay(ctx, data):
    run(ctx)
