"""C17 — CsrMatrixBuilder / ImmutableCsrMatrix behave like the dense matrix (src/hpotk/graph/csr/_csr.py)."""
import itertools

import common
from common import run_driver

RULE = ('assignment histories on a CsrMatrixBuilder (exhaustive: every sequence of length <= 3 over all cells x values {1,-1,2} '
        'for the small shapes listed in exhaustive_streams; random: shapes up to 6x7 incl. 0-width/0-height, up to 40 assignments, '
        'out-of-shape attempts) are read back through ImmutableCsrMatrix cell by cell, row by row and by col_indices_of_val '
        'for q in {0,1,-1,2,7,200000,200001,-200001} (stored values include those large neighbours), at every coordinate in -(R+3)..R+2 x -(C+3)..C+2 (so every negative alias and both overshoots); '
        'snapshot histories (a matrix taken from the builder after k assignments must keep reading like the dense matrix after k '
        'assignments while the builder goes on, and a matrix given caller-owned numpy arrays must not change when the caller '
        'scribbles over them afterwards); hand-given well-formed CSR triples for int/float/bool dtypes. '
        'Every read is compared with the Lean model (errors compared as "raises"). A history is non-trivial when it overwrites '
        'a cell, inserts a smaller column after a larger one in the same row, or touches the first/last row; distinct by (shape, ops).')

QUERY_VALUES = [0, 1, -1, 2, 7, 200000, 200001, -200001]       # incl. large neighbours: equality must be exact


def _impl():
    from hpotk.graph.csr import CsrMatrixBuilder, ImmutableCsrMatrix
    return CsrMatrixBuilder, ImmutableCsrMatrix


def reads_for(R, C, full=True):
    reads = []
    rows = list(range(-(R + 3), R + 3))          # every negative alias of every row, and beyond on both sides
    cols = list(range(-(C + 3), C + 3))
    for r in rows:
        reads.append(['row', r])
        for q in QUERY_VALUES:
            reads.append(['cols', r, q])
        for c in cols:
            if full or (0 <= r < R and 0 <= c < C) or (r + c) % 2 == 0:
                reads.append(['cell', r, c])
    return reads


def canon(v):
    """numpy scalars / arrays -> plain python ints (bool/float dtypes map onto 0/1 and exact ints)."""
    import numpy as np
    if isinstance(v, np.ndarray):
        return [canon(x) for x in v.tolist()]
    if isinstance(v, (bool, np.bool_)):
        return int(v)
    if isinstance(v, (float, np.floating)):
        return int(v) if float(v).is_integer() else float(v)
    if isinstance(v, (int, np.integer)):
        return int(v)
    return v


def impl_read(m, rd):
    try:
        if rd[0] == 'cell':
            return {'ok': canon(m[rd[1], rd[2]])}
        if rd[0] == 'row':
            got = m[rd[1]]
            out = {'ok': canon(got)}
            common.scribble(got)         # the caller overwrites the row it was handed; later reads must not show it
            return out
        if rd[0] == 'cols':
            got = m.col_indices_of_val(rd[1], rd[2])
            out = {'ok': sorted(canon(got))}
            common.scribble(got)
            return out
    except Exception as e:  # noqa
        return {'err': type(e).__name__}


def same(a, b):
    if 'err' in a or 'err' in b:
        return ('err' in a) and ('err' in b)      # error = any exception
    x, y = a['ok'], b['ok']
    return x == y


def run_history(shape, ops, dtype=int):
    CsrMatrixBuilder, ImmutableCsrMatrix = _impl()
    import warnings
    with warnings.catch_warnings():
        warnings.simplefilter('ignore')
        b = CsrMatrixBuilder(shape=shape)
    sets = []
    for r, c, v in ops:
        try:
            b[r, c] = v
            sets.append({'ok': None})
        except Exception as e:  # noqa
            sets.append({'err': type(e).__name__})
    raw = {'row': [int(x) for x in b.row], 'col': [int(x) for x in b.col], 'data': [int(x) for x in b.data]}
    m = ImmutableCsrMatrix(b.row, b.col, b.data, shape, dtype=dtype)
    return sets, raw, m


def nontrivial(shape, ops):
    seen = {}
    for r, c, v in ops:
        if not (0 <= r < shape[0] and 0 <= c < shape[1]):
            continue
        if (r, c) in seen:
            return True
        if any(rr == r and cc > c for (rr, cc) in seen):
            return True
        seen[(r, c)] = v
    return any(r in (0, shape[0] - 1) for (r, _) in seen) and len(seen) >= 2


def evaluate(ctx, cases, stream):
    """cases: list of (shape, ops) or ('csr', dict)."""
    reqs = []
    for case in cases:
        if case[0] == 'csr':
            d = case[1]
            reqs.append({'op': 'c17.csr', 'indptr': d['indptr'], 'col': d['col'], 'dat': d['dat'],
                         'nrows': d['shape'][0], 'ncols': d['shape'][1], 'reads': reads_for(*d['shape'])})
        else:
            shape, ops = case
            reqs.append({'op': 'c17.hist', 'nrows': shape[0], 'ncols': shape[1],
                         'ops': [[r, [c, v]] for r, c, v in ops], 'reads': reads_for(*shape)})
    reps = run_driver(reqs)
    CsrMatrixBuilder, ImmutableCsrMatrix = _impl()
    for case, req, rep in zip(cases, reqs, reps):
        if case[0] == 'csr':
            d = case[1]
            dtype = {'int': int, 'float': float, 'bool': bool}[d['dtype']]
            conv = {'int': int, 'float': float, 'bool': bool}[d['dtype']]
            try:
                m = ImmutableCsrMatrix(d['indptr'], d['col'], [conv(x) for x in d['dat']], tuple(d['shape']), dtype=dtype)
            except Exception as e:  # noqa
                ctx.violation('csr-constructor-raises', {'case': {'kind': 'csr', **d}, 'impl': type(e).__name__})
                continue
            sets_ok, raw = True, None
            nt = len(d['col']) >= 2
            canon_case = ['csr', d]
        else:
            shape, ops = case
            try:
                sets, raw, m = run_history(shape, ops)
            except Exception as e:  # noqa
                ctx.violation('history-raises', {'case': {'kind': 'hist', 'shape': list(shape), 'ops': [list(o) for o in ops]},
                                                 'impl': f'{type(e).__name__}: {e}'})
                continue
            sets_ok = all(same(a, b) for a, b in zip(sets, rep['sets']))
            nt = nontrivial(shape, ops)
            canon_case = ['hist', shape, ops]
            if raw != rep['raw']:
                ctx.count('diagnostic.raw_arrays_differ')      # representation, not behaviour: logged only
        bad = []
        if not sets_ok:
            bad.append({'assignments': {'impl': sets, 'model': rep['sets']}})
        for rd, mr in zip(req['reads'], rep['reads']):
            ir = impl_read(m, rd)
            if 'ok' in mr and rd[0] == 'cols':
                mr = {'ok': sorted(mr['ok'])}
            if not same(ir, mr):
                bad.append({'read': rd, 'impl': ir, 'model': mr})
                if len(bad) > 4:
                    break
        # value queries that are not integers (the model works over Int): on an int matrix nothing equals 0.5, 1.5, nan or inf,
        # and such a query is not an error
        if case[0] != 'csr' or case[1]['dtype'] == 'int':
            R_ = case[1]['shape'][0] if case[0] == 'csr' else case[0][0]
            for r in range(R_):
                for q in (0.5, 1.5, -0.5, float('nan'), float('inf'), 2.000001):
                    ir = impl_read(m, ['cols', r, q])
                    if ir != {'ok': []}:
                        bad.append({'read': ['cols', r, repr(q)], 'impl': ir, 'model': {'ok': []}})
                        break
        ctx.case(canon_case, nt, stream,
                 sample={'case': canon_case, 'reads': len(req['reads'])} if nt else None)
        ctx.count('reads', len(req['reads']))
        if bad:
            body = {'case': ({'kind': 'csr', **case[1]} if case[0] == 'csr' else
                             {'kind': 'hist', 'shape': list(case[0]), 'ops': [list(o) for o in case[1]]}),
                    'disagreements': bad, 'theorem': 'Hpv.Props.C17.builder_reads_like_dense / csr_reads / out_of_shape'}
            rd = bad[0].get('read', ['set'])
            ctx.violation(f'{case[0] if case[0] == "csr" else "hist"}:{rd[0]}', body)


def evaluate_snapshots(ctx, cases, stream):
    """cases: (shape, ops, k).  The matrix taken after the first k assignments is read (a) at once, (b) again after the builder
    received the remaining assignments; a second matrix built from caller-owned numpy copies of the same arrays is read after the
    caller overwrote its arrays.  All three must equal the model's reading of the k-prefix."""
    import numpy as np
    import warnings
    CsrMatrixBuilder, ImmutableCsrMatrix = _impl()
    reqs = [{'op': 'c17.hist', 'nrows': shape[0], 'ncols': shape[1], 'ops': [[r, [c, v]] for r, c, v in ops[:k]],
             'reads': reads_for(*shape, full=False)} for shape, ops, k in cases]
    reps = run_driver(reqs)
    reps_full = run_driver([{'op': 'c17.hist', 'nrows': shape[0], 'ncols': shape[1], 'ops': [[r, [c, v]] for r, c, v in ops],
                             'reads': reads_for(*shape, full=False)} for shape, ops, k in cases])
    for (shape, ops, k), req, rep, rep_full in zip(cases, reqs, reps, reps_full):
        with warnings.catch_warnings():
            warnings.simplefilter('ignore')
            b = CsrMatrixBuilder(shape=shape)
        try:
            for r, c, v in ops[:k]:
                b[r, c] = v
            m = ImmutableCsrMatrix(b.row, b.col, b.data, shape, dtype=int)
            own = [np.array(b.row, dtype=int), np.array(b.col, dtype=int)]      # row / col may be numpy arrays, data a sequence
            m2 = ImmutableCsrMatrix(own[0], own[1], list(b.data), shape, dtype=int)
            first = [impl_read(m, rd) for rd in req['reads']]
            for r, c, v in ops[k:]:
                b[r, c] = v
            for a in own:
                if a.size:
                    a[...] = 0
            later = [impl_read(m, rd) for rd in req['reads']]
            later2 = [impl_read(m2, rd) for rd in req['reads']]
            # the builder read again after the remaining assignments (overwrites included) must give the matrix of the WHOLE history
            m3 = ImmutableCsrMatrix(b.row, b.col, b.data, shape, dtype=int)
            final_reads = [impl_read(m3, rd) for rd in req['reads']]
        except Exception as e:  # noqa
            ctx.violation('snapshot-raises', {'case': {'kind': 'snap', 'shape': list(shape), 'ops': [list(o) for o in ops], 'k': k},
                                              'impl': f'{type(e).__name__}: {e}'})
            continue
        bad = []
        for which, got in (('at-once', first), ('after-builder-went-on', later), ('after-caller-overwrote-its-arrays', later2)):
            for rd, ir, mr in zip(req['reads'], got, rep['reads']):
                if 'ok' in mr and rd[0] == 'cols':
                    mr = {'ok': sorted(mr['ok'])}
                if not same(ir, mr):
                    bad.append({'when': which, 'read': rd, 'impl': ir, 'model': mr})
                    break
        for rd, ir, mr in zip(req['reads'], final_reads, rep_full['reads']):
            if 'ok' in mr and rd[0] == 'cols':
                mr = {'ok': sorted(mr['ok'])}
            if not same(ir, mr):
                bad.append({'when': 'builder-read-again-after-all-assignments', 'read': rd, 'impl': ir, 'model': mr})
                break
        canon_case = ['snap', shape, ops, k]
        nt = 0 < k < len(ops)
        ctx.case(canon_case, nt, stream, sample={'case': canon_case} if nt else None)
        ctx.count('reads', 3 * len(req['reads']))
        if bad:
            ctx.violation(f'snapshot:{bad[0]["when"]}', {
                'case': {'kind': 'snap', 'shape': list(shape), 'ops': [list(o) for o in ops], 'k': k}, 'disagreements': bad,
                'theorem': 'Hpv.Props.C17.builder_reads_like_dense (the matrix is a value: it represents the dense matrix of the '
                           'prefix it was taken from)'})


def evaluate_wide(ctx, cases, stream):
    """cases: (shape, ops) with a width beyond 2^8 / 2^16 and a handful of entries; reads at the stored columns, their neighbours and
    their aliases modulo 256 and 65536 (where a narrowed index type would wrap), value queries per row; whole rows only for width <= 400"""
    CsrMatrixBuilder, ImmutableCsrMatrix = _impl()
    import warnings
    reqs = []
    for shape, ops in cases:
        R, C = shape
        cols = sorted({c for _, c, _ in ops})
        probe_cols = sorted({x for c in cols for x in (c, c - 1, c + 1, c % 256, c % 65536, (c + 256) % C, C - 1, 0) if 0 <= x < C})
        reads = [['cell', r, c] for r in range(R) for c in probe_cols] + [['cols', r, q] for r in range(R) for q in QUERY_VALUES]
        if C <= 400:
            reads += [['row', r] for r in range(R)]
        reqs.append({'op': 'c17.hist', 'nrows': R, 'ncols': C, 'ops': [[r, [c, v]] for r, c, v in ops], 'reads': reads})
    reps = run_driver(reqs)
    for (shape, ops), req, rep in zip(cases, reqs, reps):
        ctx.case(['wide', shape, ops], True, stream, sample={'shape': shape, 'ops': ops[:4]})
        try:
            with warnings.catch_warnings():
                warnings.simplefilter('ignore')
                b = CsrMatrixBuilder(shape=shape)
            for r, c, v in ops:
                b[r, c] = v
            m = ImmutableCsrMatrix(b.row, b.col, b.data, shape, dtype=int)
            bad = None
            for rd, mr in zip(req['reads'], rep['reads']):
                ir = impl_read(m, rd)
                if 'ok' in mr and rd[0] == 'cols':
                    mr = {'ok': sorted(mr['ok'])}
                if not same(ir, mr):
                    bad = {'read': rd, 'impl': ir, 'model': mr}
                    break
        except Exception as e:  # noqa
            bad = {'impl': f'raises {type(e).__name__}: {e}'}
        if bad:
            ctx.violation('wide:' + str(bad.get('read', ['build'])[0]), {'case': {'kind': 'wide', 'shape': list(shape), 'ops': [list(o) for o in ops]},
                                                                      'disagreement': bad, 'theorem': 'Hpv.Props.C17.builder_reads_like_dense'})


def random_wf_csr(rng, dtype):
    R, C = rng.randrange(0, 5), rng.randrange(0, 6)
    indptr, col, dat = [0], [], []
    for _ in range(R):
        cols = rng.sample(range(C), rng.randrange(0, C + 1)) if C else []
        if rng.random() < 0.6:
            cols.sort()         # canonical rows, and rows that list their columns in another order (legal CSR; theorem csr_reads_any_column_order)
        for c in cols:
            col.append(c)
            dat.append(1 if dtype == 'bool' else rng.choice([1, -1, 2, 3, 7, 200000, 200001, -200001]))
        indptr.append(len(col))
    return ('csr', {'indptr': indptr, 'col': col, 'dat': dat, 'shape': [R, C], 'dtype': dtype})


def probe_outcomes():
    """a fixed set of reads and assignments, out-of-shape ones included, as a digest (environment probe)"""
    import numpy as np
    CsrMatrixBuilder, ImmutableCsrMatrix = _impl()
    out = {}
    m = ImmutableCsrMatrix([0, 1, 3, 3, 4], [0, 1, 3, 2], [1., 2., 3., 4.], (4, 4), dtype=float)
    for r in range(-6, 7):
        for c in range(-6, 7):
            out[f'cell {r},{c}'] = str(impl_read(m, ['cell', r, c]))
        out[f'row {r}'] = str(impl_read(m, ['row', r]))
        out[f'cols {r}'] = str(impl_read(m, ['cols', r, 0.]))
    for shape in ((1, 0), (2, 3), (0, 2)):
        b = CsrMatrixBuilder(shape=shape)
        for r in range(-4, 5):
            for c in range(-4, 5):
                try:
                    b[r, c] = 5
                    out[f'set {shape} {r},{c}'] = 'stored'
                except Exception as e:  # noqa
                    out[f'set {shape} {r},{c}'] = 'raises'
    return out


def run(ctx):
    common.environment_probe(ctx, 'c17', 'probe_outcomes', 'Hpv.Props.C17.out_of_shape / csr_reads')
    rng = ctx.rng
    thorough = ctx.tier == 'thorough'
    vals = [1, -1, 2]
    # exhaustive small scopes
    shapes3 = [(1, 1), (1, 2), (2, 1), (2, 2), (1, 3), (3, 1), (2, 0), (0, 2)] + ([(2, 3), (3, 2), (3, 3)] if thorough else [(2, 3)])
    for shape in shapes3:
        cells = [(r, c, v) for r in range(shape[0]) for c in range(shape[1]) for v in vals]
        L = 3 if (len(cells) <= 18 or thorough) else 2
        cases = []
        for n in range(0, L + 1):
            for ops in itertools.product(cells, repeat=n):
                cases.append((shape, list(ops)))
        for i in range(0, len(cases), 4000):
            evaluate(ctx, cases[i:i + 4000], f'exhaustive.{shape[0]}x{shape[1]}.len<={L}')
        ctx.exhaustive[f'all assignment sequences of length <= {L} over values {{1,-1,2}} on shape {shape[0]}x{shape[1]}'] = True
    # length 4 with two values on shapes up to 2x3
    for shape in ([(2, 2), (2, 3)] if thorough else [(2, 2)]):
        cells = [(r, c, v) for r in range(shape[0]) for c in range(shape[1]) for v in (1, -1)]
        cases = [(shape, list(ops)) for ops in itertools.product(cells, repeat=4)]
        for i in range(0, len(cases), 4000):
            evaluate(ctx, cases[i:i + 4000], f'exhaustive.{shape[0]}x{shape[1]}.len=4.values{{1,-1}}')
        ctx.exhaustive[f'all assignment sequences of length 4 over values {{1,-1}} on shape {shape[0]}x{shape[1]}'] = True
    # random histories, incl. out-of-shape attempts
    cases = []
    for _ in range(6000 if thorough else 1200):
        R, C = rng.randrange(0, 7), rng.randrange(0, 8)
        ops = []
        for _ in range(rng.randrange(0, 41)):
            if rng.random() < 0.08:
                r, c = rng.choice([-2, -1, R, R + 1, rng.randrange(0, R + 1)]), rng.choice([-1, C, C + 2, rng.randrange(0, C + 1)])
            else:
                r, c = (rng.randrange(R) if R else 0), (rng.randrange(C) if C else 0)
            ops.append((r, c, rng.choice([1, -1, 2, 3, 7, 200000, 200001, -200000, -200001])))
        cases.append(((R, C), ops))
    for i in range(0, len(cases), 1000):
        evaluate(ctx, cases[i:i + 1000], 'random.histories')
    # snapshots: the matrix is a value
    cases = []
    for _ in range(1500 if thorough else 300):
        R, C = rng.randrange(1, 6), rng.randrange(1, 7)
        ops = [(rng.randrange(R), rng.randrange(C), rng.choice([1, -1, 2, 3, 7])) for _ in range(rng.randrange(1, 25))]
        cases.append(((R, C), ops, rng.randrange(0, len(ops) + 1)))
    evaluate_snapshots(ctx, cases, 'random.snapshots')
    # wide, very sparse matrices (column indices beyond 2^8 and 2^16)
    cases = []
    for C in (300, 300, 70000, 70000) + ((1000, 200000) if thorough else ()):
        R = rng.randrange(1, 4)
        ops = [(rng.randrange(R), rng.choice([C - 1, C - 20, 256 + rng.randrange(40), min(C - 1, 65536 + rng.randrange(40)), rng.randrange(C)]),
                rng.choice([1, -1, 2, 7])) for _ in range(rng.randrange(2, 7))]
        cases.append(((R, C), ops))
    evaluate_wide(ctx, cases, 'wide-sparse')
    # hand-given well-formed CSR triples with the three dtypes
    cases = [random_wf_csr(rng, dt) for dt in ('int', 'float', 'bool') for _ in range(600 if thorough else 150)]
    evaluate(ctx, cases, 'random.csr-triples')


def replay(ctx, data):
    c = data['case']
    if c['kind'] == 'wide':
        evaluate_wide(ctx, [(tuple(c['shape']), [tuple(o) for o in c['ops']])], 'replay')
    elif c['kind'] == 'snap':
        evaluate_snapshots(ctx, [(tuple(c['shape']), [tuple(o) for o in c['ops']], c['k'])], 'replay')
    elif c['kind'] == 'hist':
        evaluate(ctx, [(tuple(c['shape']), [tuple(o) for o in c['ops']])], 'replay')
    else:
        evaluate(ctx, [('csr', {k: c[k] for k in ('indptr', 'col', 'dat', 'shape', 'dtype')})], 'replay')
