"""C05 — Obographs loading is faithful to the document (ontology/load/obographs/*)."""
import itertools
import json
import os
import shutil
import tempfile
import warnings

from common import run_driver

RULE = ('(a) regex conformance: the model\'s recognisers for PURL_PATTERN, DATE_PATTERN and parse_synonym_type are compared with the '
        'compiled patterns / functions of the running code on all strings over pattern-specific alphabets up to length 5-6 plus '
        'structured longer ones. (b) random HPO-like documents from a grammar (CLASS/PROPERTY/INDIVIDUAL/untyped/unknown-type nodes; '
        'prefixes HP, MONDO, HPX (extends HP), hp#..., non-PURL ids, ids with fragments / several underscores / leading underscore; '
        'deprecated true/false/absent/non-boolean; every optional meta part present/absent/empty; is_a and five other predicates; dangling, '
        'foreign-prefix, PROPERTY-endpoint and deprecated-endpoint edges; repeated edges; both version encodings, neither, both) x '
        '{minimal, full} loader x {indexed, incremental} graph factory x prefixes {HP}, {HP,MONDO}, {MONDO}; observables version, sorted '
        'term records (all fields of the full loader; comments as "every comment occurs"), len, sorted term_ids, graph nodes, root, '
        'parents — compared with the Lean model; plus node/edge shuffles (same dump) and a malformed stream (loader must raise when the '
        'model raises). Non-trivial: the document has >= 3 node kinds and at least one dropped node and one dropped edge; distinct by doc.')

THEOREM = 'Hpv.Props.C05.*'
BASE = 'http://purl.obolibrary.org/obo/'
SYN_TYPES = [BASE + 'hp#layperson', BASE + 'hp#layperson term', BASE + 'hp#abbreviation', BASE + 'hp#uk_spelling',
             BASE + 'hp#obsolete_synonym', BASE + 'hp#plural_form', BASE + 'HP_0034334', BASE + 'allelic_requirement',
             BASE + 'hp#unknown', 'http://example.org/hp#layperson', BASE + 'hp/x#abbreviation', BASE + 'hp#a#plural_form',
             BASE + 'hp#layperson#', BASE + 'hp#', BASE + 'xhp#layperson', BASE + 'hp#allelic_requirement', '', BASE]


# ------------------------------------------------------------------ (a) recognisers

def conformance(ctx):
    from hpotk.ontology.load.obographs import _load as L
    from hpotk.ontology.load.obographs import _factory as F
    # PURL
    alpha = ['H', 'P', '_', '0', '#', '/']
    ss = []
    for n in range(0, 6):
        for t in itertools.product(alpha, repeat=n):
            ss.append(BASE + ''.join(t))
    ss += ['', 'x' + BASE + 'HP_1', BASE[:-1] + 'HP_1', 'http://purl.obolibrary.org/obo', BASE + 'HP_0000118#x', 'http://example.org/HP_1',
           BASE.replace('.', 'x') + 'HP_1', BASE + 'HP_0000118/extra_1']
    model = run_driver([{'op': 'obo.recognise', 'which': 'purl', 'ss': ss}])[0]
    bad = [(s, L.extract_curie_from_purl(s), m) for s, m in zip(ss, model) if L.extract_curie_from_purl(s) != m]
    ctx.case(['recogniser', 'purl'], True, 'recogniser.PURL_PATTERN', sample={'strings': len(ss), 'example': ss[4000]})
    ctx.count('recogniser.purl.strings', len(ss))
    if bad:
        s, i, m = bad[0]
        ctx.violation('recogniser:purl', {'case': {'kind': 'recogniser', 'which': 'purl', 's': s}, 'impl': i, 'model': m,
                                          'note': 'the model recogniser no longer matches the compiled pattern', 'theorem': 'correspondence of purlCurie'},
                      no_input=True)
    # DATE
    pieces = ['/', '2024-04-26', '2023-1-01', 'x', '\n', '/2022-02-02/', '/1999-12-31', '99-9', 'http://h/']
    ss = [''.join(t) for n in range(0, 5) for t in itertools.product(pieces, repeat=n)]
    model = run_driver([{'op': 'obo.recognise', 'which': 'date', 'ss': ss}])[0]
    impl = [L.extract_ontology_version({'version': s}) for s in ss]
    ctx.case(['recogniser', 'date'], True, 'recogniser.DATE_PATTERN', sample={'strings': len(ss)})
    ctx.count('recogniser.date.strings', len(ss))
    bad = [(s, i, m) for s, i, m in zip(ss, impl, model) if i != m]
    if bad:
        s, i, m = bad[0]
        ctx.violation('recogniser:date', {'case': {'kind': 'recogniser', 'which': 'date', 's': s}, 'impl': i, 'model': m,
                                          'theorem': 'correspondence of dateOf'}, no_input=True)
    # synonym type
    ss = list(SYN_TYPES) + [BASE + 'hp' + a + '#' + b for a in ('', '/x', '#y') for b in ('layperson', 'abbreviation', 'zzz', 'uk_spelling', 'plural_form', 'obsolete_synonym')]
    model = run_driver([{'op': 'obo.recognise', 'which': 'syntype', 'ss': ss}])[0]
    impl = [None if F.parse_synonym_type(s) is None else F.parse_synonym_type(s).name for s in ss]
    ctx.case(['recogniser', 'syntype'], True, 'recogniser.parse_synonym_type', sample={'strings': len(ss)})
    bad = [(s, i, m) for s, i, m in zip(ss, impl, model) if i != m]
    if bad:
        s, i, m = bad[0]
        ctx.violation('recogniser:syntype', {'case': {'kind': 'recogniser', 'which': 'syntype', 's': s}, 'impl': i, 'model': m,
                                             'theorem': 'correspondence of parseSynType'}, no_input=True)


# ------------------------------------------------------------------ (b) documents

# texts that "tidying" code rewrites: not in Unicode NFC (decomposed diacritics, OHM / KELVIN / ANGSTROM SIGN, conjoining jamo), compatibility
# characters (ligature, full-width letter, superscript), blanks at either end / doubled / no-break / zero-width, tabs and line breaks inside,
# a byte-order mark, upper / lower case twins, a trailing period, things that look like markup or escapes
ODD_TEXTS = ['Cafe\u0301', 'e\u0301\u0323', '\u2126 resistance', '\u212a', '\u212b ngstrom', '\u1100\u1161\u11a8', '\ufb01brosis', '\uff21bnormal', 'x\u00b2',
             ' leading', 'trailing ', 'two  blanks', 'no\u00a0break', 'zero\u200bwidth', 'tab\there', 'line\nbreak', 'cr\rhere', '\ufeffbom',
             'SEIZURE', 'seizure', 'Seizure.', '&amp; &lt;b&gt;', '\\n not a newline', '"quoted"', "it's", 'a' * 300, '\U0001F9EC gene', '\u0130stanbul', '\u00df']


def odd_text(rng, default):
    return rng.choice(ODD_TEXTS) if rng.random() < 0.9 else default


def gen_doc(rng, malformed=False):
    n = rng.randrange(3, 16)
    nums = rng.sample(range(1, 400), n + 6)
    nodes, retained_like = [], []
    used = set()
    for i in range(n):
        r = rng.random()
        num = nums[i]
        if r < 0.62:
            nid, kind = BASE + f'HP_{num:07d}', 'hp'
        elif r < 0.72:
            nid, kind = BASE + f'MONDO_{num:07d}', 'mondo'
        elif r < 0.77:
            nid, kind = BASE + f'HPX_{num:07d}', 'hpx'
        elif r < 0.82:
            nid, kind = BASE + f'hp#prop{num}', 'hp#'
        elif r < 0.86:
            nid, kind = f'http://example.org/HP_{num:07d}', 'nonpurl'
        elif r < 0.90:
            nid, kind = BASE + f'HP_{num:07d}#frag', 'hp'
        elif r < 0.93:
            nid, kind = BASE + f'HP_{num:04d}_{num % 7}', 'hp'
        elif r < 0.96:
            nid, kind = BASE + f'_HP_{num:07d}', 'underscore-first'
        else:
            nid, kind = BASE + f'HP{num}', 'no-underscore'
        if nid in used:
            continue
        used.add(nid)
        node = {'id': nid}
        t = rng.random()
        if t < 0.72 or kind in ('hp', 'mondo') and t < 0.85:
            node['type'] = 'CLASS'
        elif t < 0.88:
            node['type'] = rng.choice(['PROPERTY', 'INDIVIDUAL'])
        elif t < 0.94:
            node['type'] = rng.choice(['UNKNOWN', 'class', 'Class'])
        if rng.random() < 0.85:
            node['lbl'] = rng.choice(['Seizure', 'Anomalie é', 'x', '', f'term {num}', odd_text(rng, f'term {num}')])
        if rng.random() < 0.7:
            meta = {}
            d = rng.random()
            if d < 0.25:
                meta['deprecated'] = True
            elif d < 0.45:
                meta['deprecated'] = False
            elif d < 0.5:
                meta['deprecated'] = rng.choice(['true', 0, 1, None])
            if rng.random() < 0.5:
                meta['definition'] = {'val': f'def {num}' if rng.random() < 0.85 else odd_text(rng, f'def {num}')}
                if rng.random() < 0.6:
                    meta['definition']['xrefs'] = rng.choice([[], ['HPO:probinson'], ['PMID:1', 'https://orcid/x']])
                if malformed and rng.random() < 0.3:
                    del meta['definition']['val']
            if rng.random() < 0.5:
                meta['comments'] = rng.choice([[], ['c one'], ['c one', 'c two; x'], ['a', 'b', 'c'], [odd_text(rng, 'c'), 'c one']])
            if rng.random() < 0.5:
                meta['synonyms'] = [{'pred': rng.choice(['hasExactSynonym', 'hasRelatedSynonym', 'hasBroadSynonym', 'hasNarrowSynonym', 'hasOther']),
                                     'val': f'syn {k if rng.random() < 0.7 else 0}' if rng.random() < 0.85 else odd_text(rng, f'syn {k}'), **({'synonymType': rng.choice(SYN_TYPES)} if rng.random() < 0.6 else {}),
                                     **({'xrefs': rng.choice([[], ['HP:1'], ['junk', 'PMID:2'], ['junk'], ['https://orcid.org/0000-0002-0736-9199'],
                                                              ['orcid.org/0000-0001-5208-3432', 'PMID:3'], ['http://orcid.org/0000-0002-0736-919X'],
                                                              ['https://orcid.org/0000-0002-0736-91990', 'ORCID:0000-0002-0736-9199'],
                                                              ['see https://orcid.org/0000-0003-1234-5678']])} if rng.random() < 0.7 else {})}
                                    for k in range(rng.randrange(0, 4))]
            if rng.random() < 0.4:
                meta['xrefs'] = [{'val': rng.choice(['UMLS:C1', 'SNOMEDCT_US:12', 'MSH:D1'])} for _ in range(rng.randrange(0, 3))]
                if malformed and meta['xrefs'] and rng.random() < 0.4:
                    meta['xrefs'][0]['val'] = 'notacurie'
            if rng.random() < 0.6:
                bp = []
                for _ in range(rng.randrange(0, 4)):
                    pr = rng.choice([BASE + 'oboInOwl#hasAlternativeId', 'http://www.geneontology.org/formats/oboInOwl#hasAlternativeId',
                                     BASE + 'oboInOwl#hasOBONamespace', 'http://x#hasAlternativeIdentifier', BASE + 'IAO_0100001'])
                    bp.append({'pred': pr, 'val': f'HP:{nums[n + rng.randrange(6)]:07d}'})
                    if rng.random() < 0.1:
                        del bp[-1][rng.choice(['pred', 'val'])]
                meta['basicPropertyValues'] = bp
            node['meta'] = meta
        nodes.append(node)
    # alternate ids must be unique per document for a well-formed ontology? (not required by the loader) -- keep as generated
    ids = [nd['id'] for nd in nodes]
    edges = []
    for j in range(1, len(ids)):
        for _ in range(rng.choice([0, 1, 1, 1, 2])):
            i = rng.randrange(j)
            pred = 'is_a' if rng.random() < 0.75 else rng.choice(['part_of', BASE + 'BFO_0000050', 'subPropertyOf', 'is_a ', 'IS_A', 'is_a_part'])
            edges.append({'sub': ids[j], 'pred': pred, 'obj': ids[i]})
    for _ in range(rng.randrange(0, 3)):
        edges.append({'sub': rng.choice(ids), 'pred': 'is_a', 'obj': BASE + f'HP_{rng.randrange(900, 999):07d}'})     # dangling
    for _ in range(rng.randrange(0, 2)):
        if edges:
            edges.append(dict(rng.choice(edges)))                                                                    # repeated edge
    rng.shuffle(edges)
    v = rng.random()
    meta = {}
    if v < 0.45:
        meta['version'] = BASE + f'hp/releases/2024-0{rng.randrange(1, 9)}-1{rng.randrange(0, 9)}/hp.json'
    elif v < 0.55:
        meta['version'] = BASE + 'hp/releases/unknown/hp.json'
    if 0.35 < v < 0.9:
        meta['basicPropertyValues'] = [{'pred': 'http://www.w3.org/2002/07/owl#imports', 'val': 'x'},
                                       {'pred': 'http://www.w3.org/2002/07/owl#versionInfo', 'val': f'2023-1{rng.randrange(0, 3)}-09'}]
        if rng.random() < 0.3:
            meta['basicPropertyValues'].reverse()
        if rng.random() < 0.2:
            meta['basicPropertyValues'] = meta['basicPropertyValues'][:1]
    # the graph id as real releases have it (hp.json, maxo.json, ...) or a bare name; it does not influence what is loaded
    gid = rng.choice(['hp', BASE + 'hp.json', BASE + 'mondo.json', BASE + 'hpx.json', BASE + 'maxo.owl', BASE + 'hp/releases/2024-01-01/hp.json', ''])
    return {'id': gid, 'nodes': nodes, 'edges': edges, 'meta': meta}


def dump_impl(o, full):
    terms = []
    for t in o.terms:
        rec = {'id': t.identifier.value, 'name': t.name, 'alts': sorted(a.value for a in t.alt_term_ids), 'obsolete': t.is_obsolete}
        if full:
            rec['definition'] = None if t.definition is None else [t.definition.definition, list(t.definition.xrefs)]
            rec['comment'] = t.comment
            rec['synonyms'] = None if t.synonyms is None else [[s.name, None if s.category is None else s.category.name,
                                                                 None if s.synonym_type is None else s.synonym_type.name,
                                                                 None if s.xrefs is None else [x.value for x in s.xrefs]] for s in t.synonyms]
            rec['xrefs'] = None if t.xrefs is None else [x.value for x in t.xrefs]
        terms.append(rec)
    g = o.graph
    return {'version': o.version, 'len': len(o), 'terms': sorted(terms, key=lambda r: r['id']),
            'term_ids': sorted(t.value for t in o.term_ids), 'nodes': sorted(n.value for n in g), 'root': g.root.value,
            'parents': sorted([n.value, sorted(p.value for p in g.get_parents(n))] for n in g)}


def dump_model(rep, full, doc):
    cur = [t for t in rep['terms'] if not t['obsolete']]
    terms = []
    for t in cur:
        rec = {'id': t['id'], 'name': t['name'], 'alts': sorted(t['alts']), 'obsolete': False}
        if full:
            rec.update({'definition': t['definition'], 'comment': t['comment'], 'synonyms': t['synonyms'], 'xrefs': t['xrefs']})
        terms.append(rec)
    ids = {}
    for t in cur:                      # make_term_id_map: primary then alternates, later writes win; keys unique
        ids[t['id']] = 1
        for a in t['alts']:
            ids[a] = 1
    g = rep['graph']
    return {'version': rep['version'], 'len': len(cur), 'terms': sorted(terms, key=lambda r: r['id']), 'term_ids': sorted(ids),
            'nodes': sorted(g['nodes']), 'root': g['root'], 'parents': sorted([n, sorted(ps)] for n, ps in g['parents'])}


def load_impl(world, doc, full, factory, prefixes):
    import hpotk
    from hpotk.graph import CsrIndexedGraphFactory, IncrementalCsrGraphFactory
    path = os.path.join(world, 'doc.json')
    with open(path, 'w', encoding='utf-8') as fh:
        json.dump({'graphs': [doc]}, fh, ensure_ascii=False)
    gf = CsrIndexedGraphFactory() if factory == 'indexed' else IncrementalCsrGraphFactory()
    with warnings.catch_warnings():
        warnings.simplefilter('ignore')
        if full:
            return hpotk.load_ontology(path, graph_factory=gf, prefixes_of_interest=set(prefixes))
        return hpotk.load_minimal_ontology(path, graph_factory=gf, prefixes_of_interest=set(prefixes))


def strip_comment(d):
    out = json.loads(json.dumps(d))
    for t in out['terms']:
        t.pop('comment', None)
    return out


def evaluate(ctx, world, cases, stream):
    reqs = [{'op': 'obo.load', 'doc': c['doc'], 'loader': 'full' if c['full'] else 'minimal', 'prefixes': c['prefixes']} for c in cases]
    reps = run_driver(reqs)
    for c, rep in zip(cases, reps):
        doc = c['doc']
        kinds = {nd.get('type', 'absent') for nd in doc['nodes']}
        dropped_node = 'terms' in rep and len(rep['terms']) < len(doc['nodes'])
        dropped_edge = 'edges' in rep and len(rep['edges']) < len(doc['edges'])
        nt = len(kinds) >= 3 and dropped_node and dropped_edge
        ctx.case(['doc', doc, c['full'], c['factory'], c['prefixes']], nt, stream,
                 sample={'n_nodes': len(doc['nodes']), 'n_edges': len(doc['edges']), 'node_types': sorted(map(str, kinds)), 'full': c['full'],
                         'prefixes': c['prefixes'], 'kept_terms': len(rep.get('terms', [])), 'kept_edges': len(rep.get('edges', []))} if nt else None)
        ctx.count(f'loader.{"full" if c["full"] else "minimal"}.{c["factory"]}.{"+".join(c["prefixes"])}')
        model_err = rep.get('err') or rep.get('graph', {}).get('build_err')
        problem = None
        try:
            o = load_impl(world, doc, c['full'], c['factory'], c['prefixes'])
            if model_err:
                problem = {'what': 'loaded-although-model-raises', 'model': model_err}
            else:
                impl, model = dump_impl(o, c['full']), dump_model(rep, c['full'], doc)
                if strip_comment(impl) != strip_comment(model):
                    diff = [k for k in model if strip_comment(impl)[k] != strip_comment(model)[k]]
                    k = diff[0]
                    problem = {'what': f'dump:{k}', 'impl': impl[k] if k != 'terms' else [t for t in impl[k] if t not in model[k]][:3],
                               'model': model[k] if k != 'terms' else [t for t in model[k] if t not in impl[k]][:3]}
                elif c['full']:
                    # comments: the joining separator is a free observable; every comment string must occur, None iff there are none
                    mt = {t['id']: t for t in model['terms']}
                    node_comments = [(nd['meta'].get('comments') or []) for nd in doc['nodes'] if isinstance(nd.get('meta'), dict)]
                    for t in impl['terms']:
                        want = mt[t['id']]['comment']
                        if (want is None) != (t['comment'] is None):
                            problem = {'what': 'comment-presence', 'term': t['id'], 'impl': t['comment'], 'model': want}
                            break
                        if want is not None:
                            cands = [cs for cs in node_comments if ', '.join(cs) == want]
                            if not any(all(cm in t['comment'] for cm in cs) for cs in cands):
                                problem = {'what': 'comment-content', 'term': t['id'], 'impl': t['comment'], 'model': want}
                                break
                if not problem and c.get('shuffle'):
                    d2 = dict(doc)
                    d2['nodes'] = list(reversed(doc['nodes']))
                    d2['edges'] = sorted(doc['edges'], key=lambda e: (e['obj'], e['sub'], e['pred']))
                    impl2 = dump_impl(load_impl(world, d2, c['full'], c['factory'], c['prefixes']), c['full'])
                    if impl2 != impl:
                        k = [k for k in impl if impl[k] != impl2[k]][0]
                        problem = {'what': f'order-dependence:{k}', 'impl_shuffled': impl2[k], 'impl': impl[k]}
        except Exception as e:  # noqa
            if not model_err:
                problem = {'what': 'raises', 'impl': f'{type(e).__name__}: {e}'}
        if problem:
            ctx.violation(f'{"full" if c["full"] else "minimal"}:{problem["what"]}',
                          {'case': {'kind': 'doc', 'doc': doc, 'full': c['full'], 'factory': c['factory'], 'prefixes': c['prefixes'], 'shuffle': c.get('shuffle', False)},
                           'disagreement': problem, 'theorem': THEOREM})


def probe_digest():
    """digest of what both loaders make of one fixed document with non-ASCII text (run here and in a child under a hostile environment)"""
    import hashlib
    import random
    import hpotk
    rng = random.Random(7)
    doc = gen_doc(rng)
    doc['nodes'].append({'id': BASE + 'HP_0009999', 'type': 'CLASS', 'lbl': 'Anomalie é ß 病 😀',
                         'meta': {'definition': {'val': 'déf ü', 'xrefs': ['PMID:1']}, 'comments': ['ç one'],
                                  'synonyms': [{'pred': 'hasExactSynonym', 'val': 'syn ñ'}]}})
    d = tempfile.mkdtemp(prefix='verif-c05-probe-')
    out = {}
    try:
        p = os.path.join(d, 'doc.json')
        with open(p, 'w', encoding='utf-8') as fh:
            json.dump({'graphs': [doc]}, fh, ensure_ascii=False)
        for full in (False, True):
            try:
                o = (hpotk.load_ontology if full else hpotk.load_minimal_ontology)(p)
                out['full' if full else 'minimal'] = hashlib.sha256(repr(dump_impl(o, full)).encode('utf-8')).hexdigest()[:16]
            except Exception as e:  # noqa
                out['full' if full else 'minimal'] = f'raises {type(e).__name__}'
    finally:
        shutil.rmtree(d, ignore_errors=True)
    return out


def environment_probe(ctx):
    import common
    here = probe_digest()
    there = common.run_in_child('c05', 'probe_digest', common.HOSTILE_ENV)
    ctx.case(['environment-probe'], True, 'both loaders under an ASCII locale / UTF-8 mode off (child interpreter)', sample=here)
    if here != there:
        ctx.violation('environment', {'case': {'kind': 'environment', 'env': common.HOSTILE_ENV}, 'impl': {'this process': here, 'hostile environment': there},
                                      'theorem': 'Hpv.Props.C05.terms_spec (what is loaded is a function of the document)'})


def huge_document(ctx, rng):
    """more than 2^16 terms: a star below HP:0000001 (the model is not involved; parents / children are checked against the document)"""
    import hpotk
    n = 66200
    ids = rng.sample(range(2, 9000000), n)
    nodes = [{'id': BASE + 'HP_0000001', 'type': 'CLASS', 'lbl': 'All'}] + [{'id': BASE + f'HP_{i:07d}', 'type': 'CLASS', 'lbl': f't{i}'} for i in ids]
    edges = [{'sub': BASE + f'HP_{i:07d}', 'pred': 'is_a', 'obj': BASE + 'HP_0000001'} for i in ids]
    mid = ids[:200]
    edges += [{'sub': BASE + f'HP_{a:07d}', 'pred': 'is_a', 'obj': BASE + f'HP_{b:07d}'} for a, b in zip(mid[1:], mid[:-1])]
    d = tempfile.mkdtemp(prefix='verif-c05-huge-')
    ctx.case(['huge-document', n], True, 'huge document (66 200 terms)', sample={'terms': n + 1, 'edges': len(edges)})
    problem = None
    try:
        p = os.path.join(d, 'huge.json')
        with open(p, 'w', encoding='utf-8') as fh:
            json.dump({'graphs': [{'id': 'hp', 'nodes': nodes, 'edges': edges, 'meta': {}}]}, fh)
        o = hpotk.load_minimal_ontology(p)
        if len(o) != n + 1:
            problem = f'{len(o)} terms loaded from {n + 1} CLASS nodes'
        else:
            want_par = {}
            for e in edges:
                want_par.setdefault(e['sub'][len(BASE):].replace('_', ':'), set()).add(e['obj'][len(BASE):].replace('_', ':'))
            for i in rng.sample(ids, 300) + mid[:50] + sorted(ids)[-60:] + sorted(ids)[:60]:
                c = f'HP:{i:07d}'
                got = {t.value for t in o.graph.get_parents(c)}
                if got != want_par[c]:
                    problem = f'parents of {c}: {sorted(got)} != {sorted(want_par[c])} stated in the document'
                    break
            if problem is None and len(set(o.graph.get_children('HP:0000001'))) != n:
                problem = f'the root has {len(set(o.graph.get_children("HP:0000001")))} children, the document states {n}'
    except Exception as e:  # noqa
        problem = f'raises {type(e).__name__}: {str(e)[:200]}'
    finally:
        shutil.rmtree(d, ignore_errors=True)
    if problem:
        ctx.violation('huge-document', {'case': {'kind': 'huge', 'terms': n + 1}, 'impl': problem, 'theorem': 'Hpv.Props.C05.edges_spec'})


def run(ctx):
    rng = ctx.rng
    thorough = ctx.tier == 'thorough'
    conformance(ctx)
    environment_probe(ctx)
    huge_document(ctx, rng)
    world = tempfile.mkdtemp(prefix='verif-c05-')
    try:
        cases = []
        for i in range(2500 if thorough else 350):
            doc = gen_doc(rng)
            for full in (False, True):
                cases.append({'doc': doc, 'full': full, 'factory': rng.choice(['indexed', 'indexed', 'incremental']),
                              'prefixes': rng.choice([['HP'], ['HP'], ['HP', 'MONDO'], ['MONDO']]), 'shuffle': i % 3 == 0})
        for i in range(0, len(cases), 200):
            evaluate(ctx, world, cases[i:i + 200], 'random-documents')
        cases = [{'doc': gen_doc(rng, malformed=True), 'full': True, 'factory': 'indexed', 'prefixes': ['HP', 'MONDO']} for _ in range(400 if thorough else 80)]
        evaluate(ctx, world, cases, 'malformed-stream')
        # the deprecated flag, explicitly
        P = BASE
        for flag in ('absent', True, False, 'true', 0):
            meta = {} if flag == 'absent' else {'deprecated': flag}
            doc = {'id': 'hp', 'meta': {}, 'nodes': [{'id': P + 'HP_0000001', 'type': 'CLASS', 'lbl': 'r'},
                                                     {'id': P + 'HP_0000002', 'type': 'CLASS', 'lbl': 'a', 'meta': meta},
                                                     {'id': P + 'HP_0000003', 'type': 'CLASS', 'lbl': 'b'}],
                   'edges': [{'sub': P + 'HP_0000002', 'pred': 'is_a', 'obj': P + 'HP_0000001'}, {'sub': P + 'HP_0000003', 'pred': 'is_a', 'obj': P + 'HP_0000002'}]}
            evaluate(ctx, world, [{'doc': doc, 'full': f, 'factory': 'indexed', 'prefixes': ['HP']} for f in (False, True)], 'deprecated-flag')
    finally:
        shutil.rmtree(world, ignore_errors=True)


def replay(ctx, data):
    c = data['case']
    if c.get('kind') == 'environment':
        environment_probe(ctx)
        return
    if c.get('kind') == 'huge':
        huge_document(ctx, ctx.rng)
        return
    if c['kind'] == 'recogniser':
        conformance(ctx)
        return
    world = tempfile.mkdtemp(prefix='verif-c05-')
    try:
        evaluate(ctx, world, [c], 'replay')
    finally:
        shutil.rmtree(world, ignore_errors=True)
