"""Graph generators and the implementation-side evaluation of graph queries (shared by C01, C02, C03, C14, C18, ...)."""
import itertools
import warnings

from common import run_driver

FACTORIES = ('indexed', 'incremental', 'builder')
QS = ('children', 'parents', 'ancestors', 'descendants')
PREDS = ('parentOf', 'childOf', 'ancestorOf', 'descendantOf')

# label sets chosen to stress ordering: lexicographic != numeric, mixed prefixes, labels around owl:Thing,
# prefixes that are prefixes of each other (':' sorts between digits and letters), underscore inside prefix
LABEL_SETS = [
    ['HP:1', 'HP:10', 'HP:2', 'HP:02', 'MP:1'],
    ['owl:Thin', 'owl:Thinh', 'ZZ:9', 'a:1', 'HP:3'],
    # nested prefixes whose continuation sorts BEFORE ':' (TermId order = (prefix, id) differs from the order of the CURIE strings)
    ['ICD:A', 'ICD10:A', 'ICD:B', 'ICD10:B', 'ICD1:A'],
    ['HP:1', 'HPX:1', 'HP:A', 'A_B:1', 'A:B_1'],
    ['HP:0000001', 'HP:0000118', 'HP:0000002', 'MONDO:1', 'HP:0000003'],
    ['x:2', 'x:1', 'X:2', 'X:1', 'x:11'],
    ['OMIM:1', 'OMIM.PS:1', 'OMIM:2', 'OMIM.PS:2', 'OMIM-X:1'],
]


def _hp():
    import hpotk
    from hpotk.model import TermId, Identified
    from hpotk.graph import CsrIndexedGraphFactory, IncrementalCsrGraphFactory, CsrGraphFactory
    return hpotk, TermId, Identified, {'indexed': CsrIndexedGraphFactory, 'incremental': IncrementalCsrGraphFactory,
                                       'builder': CsrGraphFactory}


_IDF = None


def identified(tid):
    """An object that merely *carries* an identifier (not a TermId, not a term)."""
    global _IDF
    if _IDF is None:
        _, TermId, Identified, _ = _hp()

        class Carrier(Identified):
            def __init__(self, t):
                self._t = t

            @property
            def identifier(self):
                return self._t
        _IDF = Carrier
    return _IDF(tid)


_SHARED_FACTORIES = {}
_SHARED_HISTORY = {}        # the last few edge lists each shared factory was given (for self-contained replays)


def build_impl(factory, edges, shared=False):
    """edges: list of (sub_curie, obj_curie). Returns the implementation graph (or raises).
    shared=True: one long-lived factory instance per class builds every graph (what the module-level default factories of the
    loaders do); otherwise a fresh factory per graph."""
    _, TermId, _, F = _hp()
    el = [(TermId.from_curie(s), TermId.from_curie(o)) for s, o in edges]
    with warnings.catch_warnings():
        warnings.simplefilter('ignore')
        if shared:
            if factory not in _SHARED_FACTORIES:
                _SHARED_FACTORIES[factory] = F[factory]()
            h = _SHARED_HISTORY.setdefault(factory, [])
            h.append([list(e) for e in edges])
            del h[:-4]
            return _SHARED_FACTORIES[factory].create_graph(el)
        return F[factory]().create_graph(el)


def underscore_form(curie):
    """'HP:1' -> 'HP_1' when that string parses back to the same (prefix, id); else None."""
    i = curie.index(':')
    p, d = curie[:i], curie[i + 1:]
    if '_' in p or ':' in d or ':' in p:
        return None
    return p + '_' + d


def mk_arg(form, curie):
    """implementation-side argument object for a node given in one of the accepted forms."""
    _, TermId, _, _ = _hp()
    if form == 'str:':
        return curie
    if form == 'str_':
        return underscore_form(curie)
    if form == 'tid':
        return TermId.from_curie(curie)
    if form == 'idf':
        return identified(TermId.from_curie(curie))
    if form in ('stid', 'idf-stid', 'user-tid'):
        # the OTHER TermId implementations: the shipped SimpleTermId, and a user subclass that only supplies prefix / id
        from hpotk.model._term_id import SimpleTermId
        i = curie.index(':')
        if form == 'user-tid':
            global _USER_TID
            if _USER_TID is None:
                class UserTermId(TermId):
                    def __init__(self, p, d):
                        self._p, self._d = p, d

                    @property
                    def prefix(self):
                        return self._p

                    @property
                    def id(self):
                        return self._d
                _USER_TID = UserTermId
            return _USER_TID(curie[:i], curie[i + 1:])
        t = SimpleTermId(curie, i)
        return t if form == 'stid' else identified(t)
    if form == 'str-sub':
        return _StrSub(curie)
    raise ValueError(form)


_USER_TID = None


class _StrSub(str):
    """a `str` subclass is a `str`"""


def wire_arg(form, curie):
    """what the model receives for the same argument"""
    if form == 'str_':
        return underscore_form(curie)
    return curie


def vals(it):
    return sorted(t.value for t in it)


def canon_err(e):
    for cls in (ValueError, IndexError, TypeError, KeyError):
        if isinstance(e, cls):
            return cls.__name__
    return 'Other'


def as_bool(v):
    """predicates must answer with a Boolean (python or numpy), not merely something truthy / falsy"""
    import numpy as np
    if isinstance(v, (bool, np.bool_)):
        return bool(v)
    return f'not-a-bool:{type(v).__name__}:{v!r}'


_N_NODES = {}


def n_nodes(g):
    """number of nodes of a graph (graphs have no len()); remembered per graph object"""
    hit = _N_NODES.get(id(g))
    if hit is None or hit[0] is not g:
        if len(_N_NODES) > 64:
            _N_NODES.clear()
        hit = _N_NODES[id(g)] = (g, sum(1 for _ in g))
    return hit[1]


def impl_answer(g, query, argmap=None):
    """Evaluate one wire-format query on the implementation graph.  `argmap(json_arg)` gives the python argument."""
    import hpotk
    from hpotk.algorithm import _traversal as tr
    from hpotk.algorithm import _augment as au
    A = argmap or (lambda a: a)
    k = query[0]
    try:
        with warnings.catch_warnings():
            warnings.simplefilter('ignore')
            if k == 'q':
                f = getattr(g, 'get_' + query[1])
                # consumed element by element: a call that ends in an exception must not have handed out anything before it
                # ("never silently answered" - a caller that takes the first element, or tests membership, never sees the exception)
                handed = []
                try:
                    for t in f(A(query[2]), query[3]):
                        handed.append(t)
                except Exception as e:  # noqa
                    if handed:
                        return {'err': canon_err(e), 'exc': type(e).__name__, 'handed_out_before_raising': [getattr(t, 'value', repr(t)) for t in handed[:5]]}
                    raise
                return {'ok': sorted(t.value for t in handed)}
            if k == 'leaf':
                return {'ok': as_bool(g.is_leaf(A(query[1])))}
            if k == 'pred':
                name = {'parentOf': 'is_parent_of', 'childOf': 'is_child_of', 'ancestorOf': 'is_ancestor_of',
                        'descendantOf': 'is_descendant_of'}[query[1]]
                return {'ok': as_bool(getattr(g, name)(A(query[2]), A(query[3])))}
            if k == 'contains':
                return {'ok': bool(A(query[1]) in g)}
            if k == 'root':
                return {'ok': g.root.value}
            if k == 'nodes':
                return {'ok': sorted(t.value for t in g)}           # the ORDER of iteration is not specified: each node once
            if k == 'helper':
                f = getattr(tr, 'get_' + query[1])
                r = f(g, A(query[2]), query[3])
                return {'ok': vals(r), 'type': type(r).__name__}
            if k == 'path':
                return {'ok': as_bool(tr.exists_path(g, A(query[1]), A(query[2])))}
            if k == 'augment1':
                f = au.augment_with_ancestors if query[1] == 'ancestors' else au.augment_with_descendants
                r = f(g, A(query[2]), query[3])
                return {'ok': vals(r), 'type': type(r).__name__}
            if k == 'augmentN':
                f = au.augment_with_ancestors if query[1] == 'ancestors' else au.augment_with_descendants
                r = f(g, A(query[2]), query[3])
                return {'ok': vals(r), 'type': type(r).__name__}
            # index API (indexed graph only)
            if not hasattr(g, 'root_idx'):
                return {'na': True}
            # WHICH index a node gets is not specified (any bijection onto 0..n-1 will do): a valid index is addressed as
            # ['of', label] (resolved through the graph's own node_to_idx) and every index in an answer is reported as the label
            # idx_to_node gives for it; indices outside 0..n-1 are passed as they are
            def I(x):
                if isinstance(x, list) and len(x) == 2 and x[0] == 'of':
                    r = g.node_to_idx(hpotk.TermId.from_curie(x[1]))
                    if r is None or not (0 <= int(r) < n_nodes(g)):
                        raise AssertionError(f'node_to_idx({x[1]}) = {r!r} for a node of the graph')
                    return r
                return x

            def L(i):
                if not (0 <= int(i) < n_nodes(g)):
                    return f'index-out-of-range:{int(i)}'
                return g.idx_to_node(int(i)).value
            if k == 'qidx':
                name = {'children': 'get_children_idx', 'parents': 'get_parents_idx', 'ancestors': 'get_ancestor_idx',
                        'descendants': 'get_descendant_idx'}[query[1]]
                return {'ok': sorted(L(i) for i in getattr(g, name)(I(query[2])))}
            if k == 'idx2node':
                return {'ok': g.idx_to_node(I(query[1])).value}
            if k == 'node2idx':
                r = g.node_to_idx(A(query[1]))
                return {'ok': None if r is None else L(r)}
            if k == 'rootidx':
                return {'ok': L(g.root_idx)}
            if k == 'predidx':
                name = {'parentOf': 'is_parent_of_idx', 'childOf': 'is_child_of_idx', 'ancestorOf': 'is_ancestor_of_idx',
                        'descendantOf': 'is_descendant_of_idx'}[query[1]]
                return {'ok': as_bool(getattr(g, name)(I(query[2]), I(query[3])))}
    except Exception as e:  # noqa
        return {'err': canon_err(e), 'exc': type(e).__name__}
    raise ValueError(f'unknown query {query}')


def canon_model(ans, query, model_nodes=None):
    """sort the model's node lists (order is a free observable) and report the model's indices as the labels of ITS numbering"""
    if 'ok' in ans and model_nodes is not None and query[0] in ('qidx', 'node2idx', 'rootidx'):
        lab = lambda i: model_nodes[i] if 0 <= i < len(model_nodes) else f'index-out-of-range:{i}'    # noqa
        v = ans['ok']
        return {'ok': sorted(lab(i) for i in v) if isinstance(v, list) else (None if v is None else lab(v))}
    if 'ok' in ans and isinstance(ans['ok'], list):
        return {'ok': sorted(ans['ok'])}
    return ans


def uses_labelled_indices(queries):
    return any(q[0] in ('qidx', 'idx2node', 'node2idx', 'rootidx', 'predidx') for q in queries)


def resolve_for_model(q, model_nodes):
    """['of', label] -> the model's index of that node"""
    return [model_nodes.index(x[1]) if isinstance(x, list) and len(x) == 2 and x[0] == 'of' else x for x in q]


def model_batch(cases):
    """cases: list of (factory, edges, queries[wire]) -> list of replies"""
    reqs = [{'op': 'graph.batch', 'factory': f, 'edges': [list(e) for e in edges], 'queries': qs} for f, edges, qs in cases]
    return run_driver(reqs)


def indexed_model_answer(edges, wq):
    """the model's answer to an index-API query on the INDEXED graph of these edges (labels instead of index numbers, as everywhere)"""
    pre = model_batch([('indexed', edges, [['nodes']])])[0]
    if 'answers' not in pre or 'ok' not in pre['answers'][0]:
        return {'na': True}
    nodes = pre['answers'][0]['ok']
    try:
        q = resolve_for_model(wq, nodes)
    except ValueError:
        return {'na': True}
    rep = model_batch([('indexed', edges, [q])])[0]
    if 'answers' not in rep:
        return {'na': True}
    return canon_model(rep['answers'][0], wq, nodes)


def answers_equal(impl, model):
    if 'na' in impl or 'na' in model:
        return ('na' in impl) == ('na' in model)
    if 'err' in impl or 'err' in model:
        return impl.get('err') == model.get('err') and not impl.get('handed_out_before_raising')
    return impl['ok'] == model['ok']


# --------------------------------------------------------------------------------------------------------------
# generators
# --------------------------------------------------------------------------------------------------------------

def small_dags(k):
    """every non-empty edge subset of the upper triangle on positions 0..k-1: edge (j, i) with i < j means j is_a i"""
    pairs = [(j, i) for j in range(k) for i in range(j)]
    for mask in range(1, 1 << len(pairs)):
        yield [pairs[b] for b in range(len(pairs)) if mask >> b & 1]


def label_assignments(k, labels):
    for perm in itertools.permutations(labels[:k] if len(labels) >= k else labels, k):
        yield perm


def exhaustive_graphs(k, label_sets):
    """all DAG shapes on k positions x all assignments of each k-label set"""
    for shape in small_dags(k):
        for ls in label_sets:
            for perm in itertools.permutations(ls[:k], k):
                yield [(perm[a], perm[b]) for a, b in shape]


def random_labels(rng, n):
    pools = [lambda i: f'HP:{i:07d}', lambda i: f'HP:{i}', lambda i: f'MP:{i}', lambda i: f'A_B:{i}', lambda i: f'x:{i:02d}',
             lambda i: f'owl:T{i}', lambda i: f'ZZ:{i}', lambda i: f'HPX:{i}']
    style = rng.choice(['hp7', 'mixed', 'hpnum', 'twins', 'nested'])
    out = set()
    while len(out) < n:
        i = rng.randrange(1, 5 * n + 5)
        if style == 'nested':      # one prefix extends another with a character below ':' ('0'-'9', '.', '-')
            out.add(f'{rng.choice(["HP", "HP2", "HP.X", "ICD", "ICD10", "OMIM", "OMIM.PS", "HP-A"])}:{rng.randrange(1, n + 2)}')
        elif style == 'twins':       # few local ids under several prefixes: HP:3, MP:3, MAXO:3 ... differ in the prefix only
            out.add(f'{rng.choice(["HP", "MP", "MAXO", "hp"])}:{rng.randrange(1, max(2, n // 2 + 1)):07d}')
        elif style == 'hp7':
            out.add(pools[0](i))
        elif style == 'hpnum':
            out.add(pools[1](i))
        else:
            out.add(rng.choice(pools)(i))
    out = list(out)
    rng.shuffle(out)
    return out


def random_dag(rng, n=None, shape=None):
    """random DAG edge list over random labels; shapes: chain, tree, diamond layers, forest, star, dense"""
    shape = shape or rng.choice(['chain', 'tree', 'layers', 'forest', 'star', 'dense', 'shortcut'])
    n = n or rng.randrange(2, 14)
    labels = random_labels(rng, n)
    edges = set()
    if shape == 'chain':
        for i in range(1, n):
            edges.add((i, i - 1))
    elif shape == 'tree':
        for i in range(1, n):
            edges.add((i, rng.randrange(i)))
    elif shape == 'star':
        for i in range(1, n):
            edges.add((i, 0))
    elif shape == 'forest':
        roots = rng.randrange(2, max(3, n // 2 + 1))
        for i in range(roots, n):
            edges.add((i, rng.randrange(i)))
        if not edges:
            edges.add((n - 1, 0))
        # make sure every root has a child so that it occurs in the edge list
        for r in range(min(roots, n - 1)):
            if not any(o == r for _, o in edges):
                edges.add((n - 1 if n - 1 > r else r + 1, r)) if (n - 1) > r else None
    elif shape == 'layers':
        layers, i = [], 0
        while i < n:
            w = rng.randrange(1, 4)
            layers.append(list(range(i, min(n, i + w))))
            i += w
        for li in range(1, len(layers)):
            for v in layers[li]:
                for p in rng.sample(layers[li - 1], rng.randrange(1, len(layers[li - 1]) + 1)):
                    edges.add((v, p))
        if not edges:
            edges.add((n - 1, 0)) if n > 1 else None
    elif shape == 'shortcut':
        for i in range(1, n):
            edges.add((i, i - 1))
        for _ in range(rng.randrange(1, n)):
            j = rng.randrange(1, n)
            i = rng.randrange(j)
            edges.add((j, i))
    else:
        for j in range(1, n):
            for i in range(j):
                if rng.random() < 0.4:
                    edges.add((j, i))
        if not edges:
            edges.add((1, 0))
    el = [(labels[a], labels[b]) for a, b in edges]
    order = rng.choice(['shuffle', 'by_subject', 'by_object', 'by_local_id'])
    if order == 'shuffle':
        rng.shuffle(el)
    elif order == 'by_local_id':       # subjects that differ in the prefix only end up next to each other
        el.sort(key=lambda e: (e[0].split(':', 1)[1], e[0], e[1]))
    elif order == 'by_subject':
        el.sort(key=lambda e: (e[0], e[1]))
    else:
        el.sort(key=lambda e: (e[1], e[0]))
    return el, shape, order


def nodes_of(edges):
    return sorted({x for e in edges for x in e})


def graph_features(edges):
    """shape statistics used by the non-triviality rules"""
    subs = {}
    objs = {}
    for s, o in edges:
        subs.setdefault(s, set()).add(o)
        objs.setdefault(o, set()).add(s)
    nodes = set(subs) | set(objs)
    parentless = [n for n in nodes if n not in subs]
    multi_parent = any(len(v) >= 2 for v in subs.values())
    # longest path (DAG) by DFS with memo
    memo = {}

    def depth(v):
        if v in memo:
            return memo[v]
        memo[v] = 0
        d = 0
        for p in subs.get(v, ()):
            d = max(d, 1 + depth(p))
        memo[v] = d
        return d
    longest = max((depth(v) for v in nodes), default=0)
    return {'n': len(nodes), 'parentless': len(parentless), 'multi_parent': multi_parent, 'longest_path': longest}


# --------------------------------------------------------------------------------------------------------------
# shared evaluation loop
# --------------------------------------------------------------------------------------------------------------

def evaluate_cases(ctx, cases, stream, theorem, nontrivial, what_key=None, on_build_error=None):
    """cases: list of dict(factory, edges, queries=[(wire_query, impl_query)], tag=...).
    Compares every answer of the implementation with the model's answer (lists sorted, errors by kind)."""
    if not cases:
        return
    # the model's own numbering of the nodes (needed only where the index API is asked): one extra batch
    numbering = [None] * len(cases)
    need = [k for k, c in enumerate(cases) if uses_labelled_indices([w for w, _ in c['queries']])]
    if need:
        pre = model_batch([(cases[k]['factory'], cases[k]['edges'], [['nodes']]) for k in need])
        for k, rep in zip(need, pre):
            if 'answers' in rep and 'ok' in rep['answers'][0]:
                numbering[k] = rep['answers'][0]['ok']
    reps = model_batch([(c['factory'], c['edges'], [resolve_for_model(w, numbering[k]) if numbering[k] is not None else w for w, _ in c['queries']])
                        for k, c in enumerate(cases)])
    for k, (c, rep) in enumerate(zip(cases, reps)):
        edges = c['edges']
        try:
            g = build_impl(c['factory'], edges)
            berr = None
        except Exception as e:  # noqa
            g, berr = None, canon_err(e)
        nt = nontrivial(c)
        ctx.case([c['factory'], edges, [w for w, _ in c['queries']][:50]], nt, stream,
                 sample={'factory': c['factory'], 'edges': edges, 'n_queries': len(c['queries']),
                         'first_queries': [w for w, _ in c['queries']][:3]} if nt else None)
        ctx.count(f'graphs.{c["factory"]}')
        ctx.count('queries', len(c['queries']))
        if 'build_err' in rep or berr:
            if rep.get('build_err') != berr:
                ctx.violation(f'build:{c["factory"]}', {'case': {'kind': 'graph', 'factory': c['factory'], 'edges': edges},
                                                        'impl': {'build_err': berr}, 'model': rep, 'theorem': theorem},
                              key=c.get('known_key'))
            continue
        bad = []
        pairs = list(zip(c['queries'], rep['answers']))
        if k % 2 == 1:
            # every other graph is asked its questions in the opposite order (predicates and leaf tests BEFORE the traversals, the last node
            # first): a fresh graph whose first visitor abandons a traversal half way is a state a fixed order never reaches
            pairs.reverse()
        ctx.count('query-order.' + ('reversed' if k % 2 == 1 else 'as-listed'))
        for (wq, iq), mans in pairs:
            ia = impl_answer(g, iq)
            ma = canon_model(mans, wq, numbering[k])
            if 'na' in ma and 'na' not in ia:
                # a graph class that has no index API in the model answers an index query: the class has GROWN the index API (nothing
                # forbids that); it must then answer like the index API of the indexed graph built from the same edges
                ma = indexed_model_answer(edges, wq)
                ctx.count('index-api-on-a-class-the-model-gives-none')
            if not answers_equal(ia, ma):
                bad.append({'query': wq, 'impl': ia, 'model': ma})
                if len(bad) >= 3:
                    break
        if bad:
            q0 = bad[0]['query']
            key = what_key(c, bad[0]) if what_key else f'{c["factory"]}:{q0[0]}:{q0[1] if len(q0) > 1 and isinstance(q0[1], str) else ""}'
            ctx.violation(key, {'case': {'kind': 'graph', 'factory': c['factory'], 'edges': edges,
                                         'queries': [w for w, _ in c['queries']], 'tag': c.get('tag')},
                                'disagreements': bad, 'theorem': theorem}, key=c.get('known_key'))


def shrink_edges(factory, edges, queries_for, fails):
    """not used yet: greedy edge removal keeping the failure"""
    return edges


def factory_after_failure(ctx, rng, theorem):
    """a long-lived factory of each class is first given lists it rejects half-way (self-loop, two-cycle, junk node) that share terms and
    edges with the list that follows: the graph of that valid list must answer like the graph of a fresh factory"""
    _, TermId, _, F = _hp()
    for k in range(4):
        ids = [f'HP:{i:07d}' for i in rng.sample(range(1, 400), 7)]
        valid = [(ids[1], ids[0]), (ids[2], ids[0]), (ids[3], ids[1]), (ids[3], ids[2]), (ids[4], ids[3]), (ids[5], ids[1])]
        rng.shuffle(valid)
        bads = [valid[:3] + [(ids[4], ids[4])] + valid[3:], valid[:2] + [(ids[0], ids[1])], valid + [(ids[6], ids[6])],
                valid + [(ids[0], ids[5])],                      # the root gets a parent below itself: no parentless term is left
                valid[:4] + [(ids[0], ids[4])] + valid[4:]]
        for f in FACTORIES:
            ctx.case(['factory-after-failure', f, valid], True, 'factory reused after a failed build')
            problem = None
            try:
                fresh = build_impl(f, valid)
                # every rejected list on its own (a later SUCCESSFUL build could wipe what the failed one left behind), and all in a row
                for history in [[b] for b in bads] + [bads]:
                    with warnings.catch_warnings():
                        warnings.simplefilter('ignore')
                        fac = F[f]()
                        for bad in history:
                            try:
                                fac.create_graph([(TermId.from_curie(a), TermId.from_curie(b)) for a, b in bad])
                            except Exception:  # noqa
                                pass
                        g = fac.create_graph([(TermId.from_curie(a), TermId.from_curie(b)) for a, b in valid])
                    if sorted(t.value for t in g) != sorted(t.value for t in fresh) or g.root != fresh.root:
                        problem = f'nodes / root differ from a fresh factory: {[t.value for t in g]} root {g.root.value}'
                    for v in fresh:
                        for q in QS:
                            a, b = vals(getattr(g, 'get_' + q)(v)), vals(getattr(fresh, 'get_' + q)(v))
                            if a != b and problem is None:
                                problem = f'get_{q}({v.value}) = {a}, a fresh factory gives {b}'
                    if problem:
                        bads = history
                        break
            except Exception as e:  # noqa
                problem = f'raises {type(e).__name__}: {e}'
            if problem:
                ctx.violation(f'{f}:factory-after-failure', {'case': {'kind': 'factory-after-failure', 'factory': f, 'edges': valid, 'rejected_before': bads},
                                                             'impl': problem, 'theorem': theorem})
