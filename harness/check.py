"""CLI of the /verif checks:  check.py Cxx --tier quick|thorough   |   check.py Cxx --replay FILE"""
import argparse
import importlib
import json
import os
import sys
import traceback
import warnings

HERE = os.path.dirname(os.path.abspath(__file__))
sys.path.insert(0, HERE)
import common  # noqa: E402

# the implementation under test: always the current working tree of the repository
sys.path.insert(0, os.path.join(common.REPO, 'src'))
os.environ.setdefault('IELIS_HPO_TOOLKIT_VERIF', '1')
warnings.simplefilter('ignore')
import logging  # noqa: E402
logging.disable(logging.CRITICAL)


def main():
    ap = argparse.ArgumentParser()
    ap.add_argument('pid')
    ap.add_argument('--tier', default=os.environ.get('VERIF_TIER', 'quick'), choices=['quick', 'thorough'])
    ap.add_argument('--replay')
    ap.add_argument('--no-proof', action='store_true', help='skip the Lean build/audit (debugging only)')
    args = ap.parse_args()
    seed = int(os.environ.get('VERIF_SEED', '20260926'))
    ctx = common.Ctx(args.pid, args.tier, seed)
    ctx.debug = bool(args.no_proof or args.replay)      # debugging / replay runs never overwrite the evidence file
    try:
        mod = importlib.import_module(f'props.{args.pid.lower()}')
    except ImportError:
        traceback.print_exc()
        print(f'no check registered for {args.pid}')
        return 2
    try:
        ok, log = common.lean_build()
        if not args.no_proof:
            ctx.proof_obligations(ok, log, getattr(mod, 'EXTRA_IMPORTS', ()))
        if args.tier == 'thorough' and ok and not args.no_proof and not args.replay:
            common_leanchecker(ctx, mod)
        if hasattr(mod, 'generated_tables'):
            mod.generated_tables(ctx)
        if args.replay:
            data = json.load(open(args.replay if os.path.isabs(args.replay) else os.path.join(common.VERIF, args.replay)))
            mod.replay(ctx, data)
        elif os.path.exists(common.DRIVER):
            mod.run(ctx)
        ctx.rule = getattr(mod, 'RULE', '')
        return ctx.finish()
    except common.InfraError as e:
        print(f'INFRASTRUCTURE ERROR: {e}')
        return 2
    except Exception as e:
        tb = traceback.extract_tb(e.__traceback__)
        src = os.path.join(common.REPO, 'src')
        if any(fr.filename.startswith(src) for fr in tb) and not args.replay:
            # the implementation raised on an input the harness considers valid: a disagreement, not an infrastructure error
            text = ''.join(traceback.format_exception(type(e), e, e.__traceback__))
            ctx.violation(f'implementation-raises:{type(e).__name__}',
                          {'impl': f'{type(e).__name__}: {e}', 'traceback_tail': text[-2500:],
                           'note': 'the implementation raised while the harness was driving it with an input it considers valid'},
                          no_input=False)
            ctx.rule = getattr(mod, 'RULE', '')
            print(text[-1200:])
            return ctx.finish()
        traceback.print_exc()
        print('INFRASTRUCTURE ERROR: the check crashed')
        return 2


def common_leanchecker(ctx, mod):
    """thorough tier: re-check the compiled property module with the independent checker."""
    import subprocess
    p = subprocess.run(['lake', 'env', 'leanchecker', f'Hpv.Props.{ctx.pid}'], cwd=common.LEAN_DIR,
                       capture_output=True, text=True)
    ctx.notes.append(f'leanchecker Hpv.Props.{ctx.pid}: exit {p.returncode}')
    if p.returncode != 0:
        ctx.violation('leanchecker-failed', {'theorem': f'Hpv.Props.{ctx.pid}', 'log_tail': (p.stdout + p.stderr)[-2000:]},
                      no_input=True)


if __name__ == '__main__':
    sys.exit(main())
