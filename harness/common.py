"""Shared machinery of the /verif checks.

Everything here is stdlib-only.  The implementation under test is imported by the
property modules from ``$HPOTK_REPO/src`` (default ``/repo/src``); this module never
imports hpotk itself.
"""
import fcntl
import hashlib
import json
import os
import random
import re
import subprocess
import sys
import time

VERIF = os.path.dirname(os.path.dirname(os.path.abspath(__file__)))
LEAN_DIR = os.path.join(VERIF, 'lean')
REPO = os.environ.get('HPOTK_REPO', '/repo')
DRIVER = os.path.join(LEAN_DIR, '.lake', 'build', 'bin', 'driver')
STD_AXIOMS = {'propext', 'Classical.choice', 'Quot.sound'}
FORBIDDEN = re.compile(r'\bsorry\b|\badmit\b|^axiom\s|native_decide|bv_decide|implemented_by|\bunsafe\s|maxHeartbeats\s+0\b',
                       re.M)

TRUSTED_BASE = [
    'Lean 4.33.0 kernel + elaborator; axioms limited to propext, Classical.choice, Quot.sound (audited per theorem on this run)',
    'compiled Lean driver (Lean compiler + C toolchain) for the executions of the model',
    'hand-written Lean model of the anchored Python code; tied to /repo by the correspondence run of this check',
    'the Python correspondence harness (generators, canonicalisers, JSON protocol)',
    'CPython / numpy / stdlib semantics (bisect, dict, set, json, csv, gzip, io, os) as documented',
]


class InfraError(Exception):
    """The check itself could not run (exit code 2)."""


# --------------------------------------------------------------------------------------
# Lean build, hygiene and axiom audit
# --------------------------------------------------------------------------------------

def _strip_comments(src: str) -> str:
    # remove block comments (non-nested is enough for our files) and line comments
    src = re.sub(r'/-.*?-/', '', src, flags=re.S)
    src = re.sub(r'--.*', '', src)
    return src


def lean_build(targets=('Hpv', 'driver')):
    """`lake build` under a file lock.  Returns (ok, log)."""
    os.makedirs(os.path.join(LEAN_DIR, '.lake'), exist_ok=True)
    lock = open(os.path.join(LEAN_DIR, '.lake', 'verif.lock'), 'w')
    fcntl.flock(lock, fcntl.LOCK_EX)
    try:
        p = subprocess.run(['lake', 'build', *targets], cwd=LEAN_DIR, capture_output=True, text=True)
        return p.returncode == 0, p.stdout + p.stderr
    finally:
        fcntl.flock(lock, fcntl.LOCK_UN)
        lock.close()


def hygiene():
    """Grep every hand-written Lean file for constructs that would void a proof."""
    hits = []
    for root, _, files in os.walk(LEAN_DIR):
        if '.lake' in root:
            continue
        for f in files:
            if f.endswith('.lean'):
                path = os.path.join(root, f)
                src = _strip_comments(open(path, encoding='utf-8').read())
                for m in FORBIDDEN.finditer(src):
                    hits.append(f'{os.path.relpath(path, VERIF)}: {m.group(0).strip()}')
    return hits


def property_theorems(pid: str):
    """Names (fully qualified) of the theorems stated in Hpv/Props/<pid>.lean."""
    path = os.path.join(LEAN_DIR, 'Hpv', 'Props', f'{pid}.lean')
    if not os.path.exists(path):
        return []
    src = _strip_comments(open(path, encoding='utf-8').read())
    ns = []
    names = []
    for line in src.splitlines():
        m = re.match(r'\s*namespace\s+(\S+)', line)
        if m:
            ns.append(m.group(1))
            continue
        m = re.match(r'\s*end\s+(\S+)', line)
        if m and ns and ns[-1].split('.')[-1] == m.group(1).split('.')[-1]:
            ns.pop()
            continue
        m = re.match(r'\s*(?:protected\s+|private\s+)?theorem\s+(\S+)', line)
        if m:
            names.append('.'.join(ns + [m.group(1)]))
    return names


def axiom_audit(pid: str, extra_imports=()):
    """Run `#print axioms` for every property theorem.  Returns dict name -> set(axioms) | None (failed)."""
    names = property_theorems(pid)
    if not names:
        return {}
    os.makedirs(os.path.join(LEAN_DIR, '.lake', 'audit'), exist_ok=True)
    path = os.path.join(LEAN_DIR, '.lake', 'audit', f'Audit_{pid}_{os.getpid()}.lean')
    with open(path, 'w') as fh:
        fh.write(f'import Hpv.Props.{pid}\n')
        for imp in extra_imports:
            fh.write(f'import {imp}\n')
        for n in names:
            fh.write(f'#print axioms {n}\n')
    try:
        p = subprocess.run(['lake', 'env', 'lean', path], cwd=LEAN_DIR, capture_output=True, text=True)
    finally:
        try:
            os.remove(path)
        except OSError:
            pass
    out = p.stdout + p.stderr
    res = {n: None for n in names}
    # "'X' depends on axioms: [a, b]"  or "'X' does not depend on any axioms"
    for m in re.finditer(r"'([^']+)' depends on axioms: \[([^\]]*)\]", out, flags=re.S):
        res[m.group(1)] = {a.strip() for a in m.group(2).replace('\n', ' ').split(',') if a.strip()}
    for m in re.finditer(r"'([^']+)' does not depend on any axioms", out):
        res[m.group(1)] = set()
    return res


# --------------------------------------------------------------------------------------
# Driver
# --------------------------------------------------------------------------------------

def run_driver(requests):
    """Send one JSON request per line to the compiled model driver, return the parsed replies."""
    if not requests:
        return []
    if not os.path.exists(DRIVER):
        raise InfraError(f'driver executable missing: {DRIVER}')
    data = '\n'.join(json.dumps(r, separators=(',', ':')) for r in requests) + '\n'
    p = subprocess.run([DRIVER], input=data, capture_output=True, text=True)
    if p.returncode != 0:
        raise InfraError(f'driver exited with {p.returncode}: {p.stderr[:500]}')
    lines = p.stdout.split('\n')
    if lines and lines[-1] == '':
        lines.pop()
    if len(lines) != len(requests):
        raise InfraError(f'driver returned {len(lines)} replies for {len(requests)} requests')
    out = []
    for req, line in zip(requests, lines):
        rep = json.loads(line)
        if isinstance(rep, dict) and 'error' in rep and len(rep) == 1:
            raise InfraError(f'driver rejected request {json.dumps(req)[:300]}: {rep["error"]}')
        out.append(rep)
    return out


# --------------------------------------------------------------------------------------
# Known findings
# --------------------------------------------------------------------------------------

def load_known_findings(pid: str):
    """Lines of KNOWN_FINDINGS.txt: `open: property=Cxx key=<key> <what>` / `fixed: property=Cxx <commit> <what>`."""
    path = os.path.join(VERIF, 'KNOWN_FINDINGS.txt')
    opened = {}
    if os.path.exists(path):
        for line in open(path, encoding='utf-8'):
            line = line.strip()
            m = re.match(r'open:\s+property=(\S+)\s+key=(\S+)\s+(.*)', line)
            if m and m.group(1) == pid:
                opened[m.group(2)] = m.group(3)
    return opened


# --------------------------------------------------------------------------------------
# Check context: counting, violations, evidence
# --------------------------------------------------------------------------------------

class Ctx:
    def __init__(self, pid: str, tier: str, seed: int):
        self.pid = pid
        self.tier = tier
        self.seed = seed
        self.rng = random.Random(seed * 1000003 + int(pid[1:]))
        self.t0 = time.time()
        self.evaluations = 0
        self.nontrivial_keys = set()
        self.samples = []
        self.dist = {}
        self.violations = []          # (key, replay_path, suffix)
        self.known_hits = {}
        self.known = load_known_findings(pid)
        self.rule = ''
        self.exhaustive = {}
        self.streams = {}
        self.obligations = []
        self.discharged = []
        self.notes = []
        self.assumptions = []
        self.traces = 0
        self.max_violations = 5

    # ---- counting -------------------------------------------------------------------
    def count(self, key, n=1):
        self.dist[key] = self.dist.get(key, 0) + n

    def case(self, canonical, nontrivial: bool, stream: str = 'main', sample=None):
        """Register one explored case. `canonical` is hashed to count distinct non-trivial cases."""
        self.evaluations += 1
        self.streams[stream] = self.streams.get(stream, 0) + 1
        self._flip_logging()
        if nontrivial:
            h = hashlib.blake2b(json.dumps(canonical, sort_keys=True, default=str).encode(), digest_size=8).digest()
            self.nontrivial_keys.add(h)
        if sample is not None and len(self.samples) < 6 and (nontrivial or not self.samples):
            self.samples.append(sample)

    def _flip_logging(self):
        """every other case runs with the library's loggers enabled for DEBUG (records go to a handler that drops them), the others with
        logging switched off: whether somebody is listening must not change a result (guarded `if logger.isEnabledFor(DEBUG):` blocks
        run in half of the cases)"""
        import logging
        lg = logging.getLogger('hpotk')
        if not getattr(self, '_log_ready', False):
            lg.addHandler(logging.NullHandler())
            lg.propagate = False
            self._log_ready, self._log_debug = True, False
        self._log_debug = not self._log_debug
        if self._log_debug:
            logging.disable(logging.NOTSET)
            lg.setLevel(logging.DEBUG)
        else:
            lg.setLevel(logging.WARNING)
            logging.disable(logging.CRITICAL)
        self.dist['cases-run-with-DEBUG-logging-enabled'] = self.dist.get('cases-run-with-DEBUG-logging-enabled', 0) + (1 if self._log_debug else 0)

    # ---- violations -----------------------------------------------------------------
    def violation(self, what: str, replay: dict, key: str = None, no_input: bool = False):
        """Report a violation (deduplicated by `what`), unless it is a listed open known finding."""
        if key is not None and key in self.known:
            if key not in self.known_hits:
                self.known_hits[key] = self.known[key]
            return
        if any(v[0] == what for v in self.violations):
            return
        if len(self.violations) >= self.max_violations:
            return
        os.makedirs(os.path.join(VERIF, 'replays'), exist_ok=True)
        body = dict(property=self.pid, what=what, tier=self.tier, seed=self.seed, **replay)
        if no_input:
            body['no_failing_input_found'] = True
        blob = json.dumps(body, indent=1, sort_keys=True, default=str)
        h = hashlib.sha1(blob.encode()).hexdigest()[:10]
        path = os.path.join('replays', f'{self.pid}-{h}.json')
        with open(os.path.join(VERIF, path), 'w') as fh:
            fh.write(blob + '\n')
        self.violations.append((what, path, ' no-failing-input-found' if no_input else ''))

    # ---- proof side -----------------------------------------------------------------
    def proof_obligations(self, build_ok: bool, build_log: str, extra_imports=()):
        names = property_theorems(self.pid)
        self.obligations = names
        hy = hygiene()
        if hy:
            self.notes.append('hygiene hits: ' + '; '.join(hy[:10]))
        if not build_ok:
            self.notes.append('lake build failed: ' + build_log[-1500:])
            self.violation('lean-build-failed', {'theorem': 'lake build Hpv', 'log_tail': build_log[-3000:]},
                           no_input=True)
            return
        audit = axiom_audit(self.pid, extra_imports)
        for n in names:
            ax = audit.get(n)
            if ax is not None and ax <= STD_AXIOMS and not hy:
                self.discharged.append(n)
            else:
                self.violation(f'obligation-not-discharged:{n}',
                               {'theorem': n, 'axioms': sorted(ax) if ax is not None else None, 'hygiene': hy[:10]},
                               no_input=True)
        self.axioms = {n: sorted(a) if a is not None else None for n, a in audit.items()}

    # ---- finish ---------------------------------------------------------------------
    def finish(self, level='proof', checker_cmd=None, extra_cov=None):
        wall = time.time() - self.t0
        try:
            self.notes.append(source_drift(self.pid))
        except Exception as e:  # noqa
            self.notes.append(f'source fingerprint not computed: {type(e).__name__}')
        cov = {
            'obligations': len(self.obligations),
            'discharged': len(self.discharged),
            'checker_cmd': checker_cmd or f'cd lean && lake build Hpv && lake env lean <#print axioms for Hpv/Props/{self.pid}.lean>',
            'trusted_base': TRUSTED_BASE,
            'theorems': self.obligations,
            'axioms': getattr(self, 'axioms', {}),
            'evaluations': self.evaluations,
            'distinct_nontrivial': len(self.nontrivial_keys),
            'rule': self.rule,
            'samples': self.samples,
            'streams': self.streams,
            'exhaustive_streams': self.exhaustive,
            'exhaustive': bool(self.exhaustive) and all(self.exhaustive.values()),
            'input_distribution': {str(k): v for k, v in sorted(self.dist.items(), key=lambda kv: str(kv[0]))},
            'traces_validated_against_impl': self.traces or self.evaluations,
            'known_findings_hit': sorted(self.known_hits),
            'notes': self.notes,
        }
        if extra_cov:
            cov.update(extra_cov)
        ev = {
            'property_id': self.pid, 'tier': self.tier, 'seed': self.seed, 'level': level,
            'coverage': cov, 'assumptions': self.assumptions or TRUSTED_BASE,
            'wall_s': round(wall, 3), 'violations': len(self.violations),
        }
        os.makedirs(os.path.join(VERIF, 'evidence'), exist_ok=True)
        fname = f'{self.pid}.json' if not getattr(self, 'debug', False) else f'debug-{self.pid}.json'
        with open(os.path.join(VERIF, 'evidence', fname), 'w') as fh:
            json.dump(ev, fh, indent=1, default=str)
            fh.write('\n')
        for key, what in sorted(self.known_hits.items()):
            print(f'KNOWN-FINDING: property={self.pid} {what}')
        for what, path, suffix in self.violations:
            print(f'VIOLATION property={self.pid} replay={path}{suffix}')
        print(f'[{self.pid}] tier={self.tier} seed={self.seed} evaluations={self.evaluations} '
              f'distinct_nontrivial={len(self.nontrivial_keys)} obligations={len(self.discharged)}/{len(self.obligations)} '
              f'violations={len(self.violations)} wall={wall:.1f}s')
        sys.stdout.flush()
        return 1 if self.violations else 0


# --------------------------------------------------------------------------------------
# small helpers used by several properties
# --------------------------------------------------------------------------------------

def err_kind(e: BaseException) -> str:
    for cls, name in ((ValueError, 'ValueError'), (IndexError, 'IndexError'), (TypeError, 'TypeError'),
                      (KeyError, 'KeyError')):
        if isinstance(e, cls):
            return name
    return 'Other:' + type(e).__name__


def outcome(fn):
    """Run fn(); return ('ok', value) or ('err', kind)."""
    try:
        return ('ok', fn())
    except Exception as e:  # noqa
        return ('err', err_kind(e))


def shrink_list(items, fails, max_rounds=200):
    """Greedy delta debugging: smallest sub-list (by removing chunks) for which `fails` is still true."""
    items = list(items)
    n = 2
    rounds = 0
    while len(items) >= 2 and rounds < max_rounds:
        rounds += 1
        chunk = max(1, len(items) // n)
        reduced = False
        for i in range(0, len(items), chunk):
            cand = items[:i] + items[i + chunk:]
            if cand and fails(cand):
                items = cand
                n = max(n - 1, 2)
                reduced = True
                break
        if not reduced:
            if chunk == 1:
                break
            n = min(len(items), n * 2)
    return items


HOSTILE_ENV = {'LC_ALL': 'C', 'LANG': 'C', 'PYTHONUTF8': '0', 'PYTHONCOERCECLOCALE': '0', 'TZ': 'Pacific/Kiritimati',
               'PYTHONOPTIMIZE': '1'}        # ASCII locale, UTF-8 mode off, a far-away time zone, `assert` statements stripped (python -O)


def run_in_child(module, func, env_extra=None, cwd=None, timeout=600):
    """runs `props.<module>.<func>()` in a fresh interpreter (optionally under another environment: locale, encoding, time zone,
    working directory) and returns its JSON-able result; the child imports the same harness and the same $HPOTK_REPO"""
    import subprocess
    import sys
    code = ('import sys, json, warnings, logging\n'
            'warnings.simplefilter("ignore"); logging.disable(logging.CRITICAL)\n'
            f'sys.path.insert(0, {os.path.join(REPO, "src")!r}); sys.path.insert(0, {os.path.dirname(os.path.abspath(__file__))!r})\n'
            f'from props import {module} as m\n'
            f'sys.stdout.write(json.dumps(m.{func}(), ensure_ascii=True))\n')
    env = dict(os.environ)
    env.update(env_extra or {})
    p = subprocess.run([sys.executable, '-c', code], capture_output=True, text=True, env=env, cwd=cwd, timeout=timeout)
    if p.returncode != 0:
        return {'child_failed': p.stderr[-1500:]}
    return json.loads(p.stdout)


def function_fingerprints(path):
    """{qualified function name: sha1 of its AST without docstrings} for one source file"""
    import ast
    import hashlib
    out = {}
    import warnings
    with warnings.catch_warnings():
        warnings.simplefilter('ignore')
        tree = ast.parse(open(path).read())

    def strip(node):
        for n in ast.walk(node):
            body = getattr(n, 'body', None)
            if isinstance(body, list) and body and isinstance(body[0], ast.Expr) and isinstance(getattr(body[0], 'value', None), ast.Constant) \
                    and isinstance(body[0].value.value, str):
                n.body = body[1:] or [ast.Pass()]
        return node

    def visit(node, prefix):
        for ch in ast.iter_child_nodes(node):
            if isinstance(ch, (ast.FunctionDef, ast.AsyncFunctionDef)):
                out[prefix + ch.name] = hashlib.sha1(ast.dump(strip(ch)).encode()).hexdigest()[:12]
                visit(ch, prefix + ch.name + '.')
            elif isinstance(ch, ast.ClassDef):
                visit(ch, prefix + ch.name + '.')
    visit(tree, '')
    return out


def source_drift(pid):
    """which anchored functions differ from the fingerprints recorded when the model was last validated against them (information
    for the reader of the evidence: the model is tied by the correspondence run, not by this fingerprint)"""
    anchors = []
    for line in open(os.path.join(VERIF, 'properties.jsonl')):
        d = json.loads(line)
        if d['id'] == pid:
            anchors = d['anchors']['files']
    fp_path = os.path.join(VERIF, 'harness', 'fingerprints.json')
    recorded = json.load(open(fp_path)) if os.path.exists(fp_path) else {}
    changed = []
    for f in anchors:
        cur = function_fingerprints(os.path.join(REPO, f))
        old = recorded.get(f, {})
        changed += [f'{f}::{k}' for k in sorted(set(cur) | set(old)) if cur.get(k) != old.get(k)]
    if not changed:
        return f'anchored source: all functions of {len(anchors)} anchor file(s) match the recorded fingerprints (harness/fingerprints.json)'
    return 'anchored source differs from the recorded fingerprints in: ' + ', '.join(changed[:12]) + (' ...' if len(changed) > 12 else '')


def scribble(obj):
    """overwrite a RESULT the library handed out, the way a caller may (a caller owns what it was given): lists and numpy arrays in place,
    dicts and sets emptied; immutable results are left alone. Returns True if something was overwritten. A later answer of the library must
    not show the scribbling."""
    if type(obj).__module__ == 'numpy' and hasattr(obj, 'fill') and hasattr(obj, 'flags'):
        try:
            if obj.flags.writeable and obj.size:
                obj.fill(77)
                return True
        except Exception:  # noqa
            pass
        return False
    try:
        if isinstance(obj, list):
            if obj:
                obj[:] = [100 + k for k in range(len(obj))]
                return True
            obj.append(12345)
            return True
        if isinstance(obj, (dict, set)):
            obj.clear()
            return True
    except Exception:  # noqa
        pass
    return False


def environment_probe(ctx, module, func, theorem):
    """`props.<module>.<func>()` (a JSON-able digest of outcomes) here and in a child interpreter under HOSTILE_ENV: what the library
    answers must not depend on the locale, the UTF-8 mode, the time zone or on `assert` statements being executed"""
    import importlib
    here = json.loads(json.dumps(getattr(importlib.import_module('props.' + module), func)()))
    there = run_in_child(module, func, HOSTILE_ENV)
    ctx.case(['environment-probe', module, func], True, 'outcomes under an ASCII locale / UTF-8 mode off / python -O (child interpreter)')
    if here != there:
        if isinstance(there, dict) and 'child_failed' in there:
            diff = {'child interpreter failed': there['child_failed'][-600:]}
        elif isinstance(here, dict) and isinstance(there, dict):
            diff = {k: [here.get(k), there.get(k)] for k in sorted(set(here) | set(there)) if here.get(k) != there.get(k)}
        else:
            diff = {'this process': str(here)[:600], 'hostile environment': str(there)[:600]}
        ctx.violation('environment:' + (sorted(diff)[0][:60] if diff else ''), {'case': {'kind': 'environment', 'env': HOSTILE_ENV, 'probe': f'{module}.{func}'},
                                                                               'impl': {'differing outcomes [this process, hostile environment]': dict(list(diff.items())[:6])},
                                                                               'theorem': theorem})
